"""Registry of checks (property -> legs per tier) and build flavours. Used by vcheck and gen_manifest."""

FLAVOURS = {
    # release-equivalent build (what release.sh ships) with the verif hooks on, jemalloc as in production
    'prod': {
        'cmd': ['cargo', 'build', '--release', '--offline', '--bin', 'axv', '--target-dir', '../target/prod'],
        'bin': 'target/prod/release/axv',
    },
}

EXPLORATION_ASSUMPTIONS = [
    'the reference model (harness/src/model.rs) is the SQL semantics the property refers to',
    'release-equivalent build (debug assertions and overflow checks off), feature verif on',
]

HOOK_COMMITS = ['979f880', '01f0fed']

ALL = ['C%02d' % i for i in range(1, 21)]

CHECKS = {
    'C05': {
        'level': 'exploration',
        'rule': 'random populations (1 table with DML, or 2 tables read-only) x random statements from the clean sub-language '
                '(generator vocabulary minus the atoms with an open finding); a case is non-trivial when the model result is '
                'non-empty / affects >= 1 row; distinct = structural hash of (history, statement)',
        'legs': {
            'quick': [{'flavour': 'prod', 'shards': 16}],
            'thorough': [{'flavour': 'prod', 'shards': 16}],
        },
        'min_evaluations': {'quick': 50000, 'thorough': 1000000},
        'assumptions': EXPLORATION_ASSUMPTIONS,
        'technique': 'differential runtime monitor: engine results vs an independent reference evaluator on random populations and statements, plus state-after oracle; known-finding witnesses',
        'level_text': 'Every statement of ~190k (quick) / ~3.8M (thorough) random statements over random populations is executed by the real engine and by a reference '
                      'evaluator; rows (bag, order under ORDER BY), affected counts and the table state after each DML must agree. Sampling, not proof: it holds on what was generated.',
        'level_note': 'Trusts the reference model and the minimal-parentheses printer; explores only the clean sub-language (features with an open finding are covered by deterministic witnesses, see known_findings.jsonl).',
    },
}

NOT_APPLICABLE = [{'property_id': c, 'reason': 'check not built yet in this session (work in progress, see DESIGN.md)'} for c in ALL if c not in CHECKS]
