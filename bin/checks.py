"""Registry of checks (property -> legs per tier) and build flavours. Used by vcheck and gen_manifest."""

FLAVOURS = {
    # release-equivalent build (what release.sh ships) with the verif hooks on, jemalloc as in production
    'prod': {
        'cmd': ['cargo', 'build', '--release', '--offline', '--bin', 'axv', '--target-dir', '../target/prod'],
        'bin': 'target/prod/release/axv',
    },
}

FLAVOURS['sysalloc'] = {
    # release build with the engine on the system allocator and the harness' counting allocator installed
    'cmd': ['cargo', 'build', '--release', '--offline', '--features', 'sysalloc', '--bin', 'axv', '--target-dir', '../target/sysalloc'],
    'bin': 'target/sysalloc/release/axv',
}

FLAVOURS['asan'] = {
    # AddressSanitizer build of engine + harness (nightly, system allocator); any report aborts the worker
    'cmd': ['cargo', 'build', '--release', '--offline', '--target', 'x86_64-unknown-linux-gnu', '--features', 'sysalloc', '--bin', 'axv', '--target-dir', '../target/asan'],
    'env': {'RUSTFLAGS': '-Zsanitizer=address -Cforce-frame-pointers=yes'},
    'bin': 'target/asan/x86_64-unknown-linux-gnu/release/axv',
    # leak detection off: the harness leaks database handles on purpose (simulated process death)
    'run_env': {'ASAN_OPTIONS': 'detect_leaks=0:abort_on_error=1:halt_on_error=1:allocator_may_return_null=1'},
}

FLAVOURS['tsan'] = {
    # ThreadSanitizer build with an instrumented standard library (-Zbuild-std), so std / parking_lot synchronisation is understood
    'cmd': ['cargo', 'build', '-Zbuild-std', '--release', '--offline', '--target', 'x86_64-unknown-linux-gnu', '--features', 'sysalloc', '--bin', 'axv', '--target-dir', '../target/tsan'],
    'env': {'RUSTFLAGS': '-Zsanitizer=thread'},
    'bin': 'target/tsan/x86_64-unknown-linux-gnu/release/axv',
    'run_env': {'TSAN_OPTIONS': 'halt_on_error=1:exitcode=66:abort_on_error=0'},
}

FLAVOURS['miri'] = {
    # Miri interpreter (UB, alignment, provenance, uninitialised reads) on tiny workloads of the pure in-memory components;
    # the wrapper compiles on first use (cargo miri has no separate build step), rkyv comes from harness/vendor (see DESIGN.md 5)
    'cmd': ['true'],
    'bin': 'bin/miri_axv',
}

FLAVOURS['prodsrv'] = {
    # prod worker plus the shipped server binary (crates/axmos-db, bin axmos-server), both from /repo's working tree
    'cmd': ['bash', '-c', 'cargo build --release --offline --bin axv --target-dir ../target/prod && cargo build --release --offline --manifest-path /repo/Cargo.toml -p axmosdb --bin axmos-server --target-dir ../target/server'],
    'bin': 'target/prod/release/axv',
    'run_env': {'AXV_SERVER_BIN': '/verif/target/server/release/axmos-server'},
}

EXPLORATION_ASSUMPTIONS = [
    'the reference model (harness/src/model.rs) is the SQL semantics the property refers to',
    'release-equivalent build (debug assertions and overflow checks off), feature verif on',
]

HOOK_COMMITS = ['979f880', '01f0fed', '19b23f1', '6b53965', '6758f12', 'e9b6269', 'e0fdcfb']

ALL = ['C%02d' % i for i in range(1, 21)]

CHECKS = {
    'C05': {
        'level': 'exploration',
        'rule': 'random populations (1 table with DML, or 2 tables read-only) x random statements from the clean sub-language '
                '(generator vocabulary minus the atoms with an open finding); a case is non-trivial when the model result is '
                'non-empty / affects >= 1 row; distinct = structural hash of (history, statement)',
        'legs': {
            'quick': [{'flavour': 'prod', 'shards': 16}],
            'thorough': [{'flavour': 'prod', 'shards': 16}],
        },
        'min_evaluations': {'quick': 50000, 'thorough': 1000000},
        'assumptions': EXPLORATION_ASSUMPTIONS,
        'technique': 'differential runtime monitor: engine results vs an independent reference evaluator on random populations and statements, plus state-after oracle; known-finding witnesses',
        'level_text': 'Every statement of ~190k (quick) / ~3.8M (thorough) random statements over random populations is executed by the real engine and by a reference '
                      'evaluator; rows (bag, order under ORDER BY), affected counts and the table state after each DML must agree. Sampling, not proof: it holds on what was generated.',
        'level_note': 'Trusts the reference model and the minimal-parentheses printer; explores only the clean sub-language (features with an open finding are covered by deterministic witnesses, see known_findings.jsonl).',
    },
}

def hist_check(cid, what, rule_extra, min_q, min_t):
    return {
        'level': 'exploration',
        'rule': 'seeded transactional histories on a fresh single-table database (autocommit DML, sessions ending in commit / rollback / drop, '
                'batches, failing statements, idle bystander sessions, quiet sessions without monitor reads, DELETEs in rolled-back transactions with tainted-row tracking' + rule_extra + ') mirrored into the reference model; after every step: statement outcome, the session\'s own view, '
                'and a fresh reader\'s view of every table are compared with the model. Non-trivial = the history contains at least one transaction end, batch, '
                'flush, vacuum or reopen; distinct = hash of the step list',
        'legs': {'quick': [{'flavour': 'prod', 'shards': 16}], 'thorough': [{'flavour': 'prod', 'shards': 16}]},
        'min_evaluations': {'quick': min_q, 'thorough': min_t},
        'assumptions': EXPLORATION_ASSUMPTIONS + ['transactions overlap only as one writer plus fresh readers (writer/writer overlap is C04)'],
        'technique': 'online reference-model monitor over seeded transactional histories (state-after-each-transaction oracle), plus known-finding witnesses',
        'level_text': what,
        'level_note': 'Histories stay inside the stability envelope of the unchanged tree (one table, a few dozen writes; shapes with an open finding are replayed as deterministic witnesses instead of being sampled).',
    }


CHECKS['C03'] = hist_check('C03', 'Each of ~2400 (quick) / 64000 (thorough) generated histories is executed against the real engine; after every rollback, session drop, failed statement '
                           'and failed batch a fresh transaction must read exactly the state the committed transactions produce. Sampling of histories, exact comparison per step.', '', 1500, 40000)

CHECKS['C07'] = hist_check('C07', 'Histories over a table with UNIQUE(k) and a NOT NULL column and a key domain of 5-6 values (collisions are the norm): every INSERT/DELETE is accepted or '
                           'rejected exactly as the model decides (statement-level), and after every commit the committed contents equal the model (hence contain no duplicate key and no NULL in the NOT NULL column).',
                           '; table shape (id, k, n TEXT NOT NULL, UNIQUE(k)), single-row inserts with colliding keys, deletes by key through a wrapped predicate', 1500, 40000)
CHECKS['C07']['min_counters'] = {'quick': {'constraint_rejections_agreed': 500}, 'thorough': {'constraint_rejections_agreed': 5000}}
CHECKS['C09'] = hist_check('C09', 'Histories with Database::flush() checkpoints and drop + Database::open(path, cfg) with four different open-time configurations at random points; after every reopen all '
                           'tables must equal the model carried across, rolled-back rows must stay invisible, and work continues on the reopened database.',
                           ', flush and close/reopen with varying configuration, 300-2500 burnt read-only transactions at the start of 1/16 of the histories', 1000, 20000)
CHECKS['C09']['min_counters'] = {'quick': {'steps.reopen': 200, 'burned_transactions': 100000}, 'thorough': {'steps.reopen': 3000}}
CHECKS['C13'] = hist_check('C13', 'Histories with Database::vacuum() at random points (after committed and rolled-back inserts, committed deletes, failed batches): every table read by a fresh transaction '
                           'immediately after VACUUM, and after all later statements, must equal the model; the database must stay usable.',
                           ' and VACUUM, quiet rolled-back sessions and quiet committing sessions with own-row updates (NULL flips) followed directly by VACUUM', 1000, 20000)
CHECKS['C13']['min_counters'] = {'quick': {'steps.vacuum': 200, 'steps.rollback_then_vacuum': 100, 'steps.commit_then_vacuum': 100}, 'thorough': {'steps.vacuum': 3000}}

CHECKS['C12'] = {
    'level': 'exploration',
    'rule': 'one generated history (multi-row inserts of 20-400 byte rows, aggregate / filtered / ordered reads, checkpoints) is run under the default configuration and under '
            'configurations drawn from page {4,8,16,32,64} KiB x cache {24,48,128,1024,10000} x pool {1,2,8} x min_keys {3,4,6} x siblings {1,2,3}; outcomes are compared statement by statement '
            '(and with the reference model). Non-trivial = every (history, configuration) pair; distinct = hash of the pair. The I/O tap counts data-file writes per run, so the evidence shows in how many runs eviction/write-back happened.',
    'legs': {'quick': [{'flavour': 'prod', 'shards': 16}], 'thorough': [{'flavour': 'prod', 'shards': 16}]},
    'min_evaluations': {'quick': 500, 'thorough': 15000},
    'min_counters': {'quick': {'runs_with_more_datafile_writes_than_default(eviction)': 50}, 'thorough': {'runs_with_more_datafile_writes_than_default(eviction)': 1000}},
    'assumptions': EXPLORATION_ASSUMPTIONS + ['histories contain no DELETE on multi-page tables (open finding: crash, corpus/C10)'],
    'technique': 'differential runtime monitor across configurations (same seeded history, statement-by-statement outcome equality, reference model, I/O tap counting write-backs)',
    'level_text': 'Each generated history is executed under 5 (quick) / 9 (thorough) configurations of the documented ranges; every statement outcome must be identical across configurations and equal to the model, '
                  'the only permitted difference being an explicit out-of-memory error of a small cache (which ends that run). Sampling over histories and configurations.',
    'level_note': 'Trusts the model; an OOM-class error text is accepted as the permitted difference; eviction is evidenced by the I/O tap, not assumed.',
}

CHECKS['C15'] = hist_check('C15', 'DDL histories over up to three tables in three generator modes (creates in autocommit / committed / rolled-back transactions; DROP TABLE with name reuse and DROP COLUMN; CREATE UNIQUE INDEX on '
                           'populated data), interleaved with DML on the same and on bystander tables and with reopen: after every step every existing table must equal the model, dropped / rolled-back / never-created names must not resolve, existing ones must.',
                           '; DDL steps as described in harness/src/c15.rs', 3000, 40000)
CHECKS['C15']['rule'] = CHECKS['C15']['rule'].replace('fresh single-table database', 'fresh database with up to three tables')
CHECKS['C15']['min_counters'] = {'quick': {'steps.create_table_in_txn': 300, 'steps.create_unique_index': 100, 'steps.name_probe': 1000, 'steps.drop_column_on_empty_table': 200}, 'thorough': {'steps.create_table_in_txn': 5000}}

CHECKS['C04'] = {
    'level': 'exploration',
    'exhaustive': False,
    'rule': '12 families of 2-3 transaction programs (reads by key / range / count / full, inserts, deletes, commit or rollback) over t(id, v): ALL statement interleavings of every family '
            '(4135 schedules) are executed, each on a fresh database, by one driver thread holding one session per program; plus seeded random program sets with a random interleaving. '
            'Non-trivial = every schedule (>= 2 transactions overlap by construction); distinct = hash of (program set, order). Exhaustive per family, sampled over program sets.',
    'legs': {'quick': [{'flavour': 'prod', 'shards': 16}], 'thorough': [{'flavour': 'prod', 'shards': 16}]},
    'min_evaluations': {'quick': 6000, 'thorough': 80000},
    'min_counters': {'quick': {'schedules_exhaustive': 4135, 'reads_checked': 15000}, 'thorough': {'schedules_exhaustive': 4135}},
    'assumptions': ['statement-level interleavings only (intra-statement races are C14)', 'snapshot is taken when the session is created', 'release-equivalent build, feature verif on'],
    'technique': 'schedule enumeration with an online snapshot-isolation reference model (unique written values; every read, affected count, commit outcome and final state checked)',
    'level_text': 'Every statement interleaving of 12 program families (bounded-exhaustive) and 4000 (quick) / 96000 (thorough) sampled schedules is run against the real engine; each read must equal '
                  'snapshot-at-begin + own writes, a repeated read must repeat, commits must follow first-committer-wins, and the final committed state must equal the model. Violations are classified '
                  '(sees-foreign-write, misses-visible-row, wrong-version, sees-deleted-row, ww-both-commit).',
    'level_note': 'UPDATE and two writers of the same row are excluded from the enumerated/sampled programs on this tree (open findings, replayed as witnesses); statement granularity only.',
}

CHECKS['C06'] = {
    'level': 'exploration',
    'rule': 'seeded histories on a table with a UNIQUE index on id (declared at CREATE TABLE, or created after the data), then plan-variant pairs: index lookup vs wrapped predicate for every key and absent keys; '
            'indexable range forms vs wrapped forms with residual predicates; ternary-logic partitions; swapped join operands; the whole battery again after ANALYZE. Every variant is also compared with the '
            'reference model. Non-trivial = the two variants have different EXPLAIN texts (TLP: always); distinct = hash of (history, query).',
    'legs': {'quick': [{'flavour': 'prod', 'shards': 16}], 'thorough': [{'flavour': 'prod', 'shards': 16}]},
    'min_evaluations': {'quick': 50000, 'thorough': 1000000},
    'min_counters': {'quick': {'plans.index_scan_seen': 5000, 'analyze_runs': 1000, 'pairs.index_vs_scan.plans_differ': 20000}, 'thorough': {'plans.index_scan_seen': 100000}},
    'assumptions': EXPLORATION_ASSUMPTIONS + ['histories contain no UPDATE and no rolled-back write on the indexed table (open findings, replayed as witnesses)'],
    'technique': 'metamorphic runtime monitor: plan-variant pairs (index vs scan, TLP, join swap, before/after ANALYZE) must agree with each other and with the reference model; EXPLAIN confirms the plans differ',
    'level_text': 'For ~1900 (quick) / 48000 (thorough) histories, every key lookup through the index is compared with the scan path, range predicates in indexable and wrapped form, TLP partitions and swapped joins '
                  'are compared pairwise and with the model, before and after ANALYZE. Sampling over histories and queries; equality is exact (bags).',
    'level_note': 'Plan difference is taken from EXPLAIN text; variants that the optimizer plans identically are counted as trivial and excluded from distinct_nontrivial.',
}

CHECKS['C16'] = {
    'level': 'exploration',
    'rule': 'inputs drawn from: random bytes, printable soup, token soup over the lexer vocabulary, valid statements of the full generator grammar, token-level mutations and truncations of those, '
            'semantic stressors (x/0, overflow, NULL/ill-typed function arguments, CASE, HAVING, sub-queries, unknown names, arity errors), oversized values, nesting towers; each against a live populated database '
            '(pool of 4 workers). Monitors: panic hook in every thread, watchdog with the no-progress hang rule, liveness probe after every input, table re-read after every failing statement. '
            'Distinct = hash of the input text; every input is non-trivial (it reaches the engine).',
    'legs': {'quick': [{'flavour': 'prod', 'shards': 16}, {'flavour': 'prod', 'shards': 4, 'engine': 'C16N'}],
             'thorough': [{'flavour': 'prod', 'shards': 16}, {'flavour': 'prod', 'shards': 4, 'engine': 'C16N'}]},
    'min_evaluations': {'quick': 50000, 'thorough': 1000000},
    'min_counters': {'quick': {'state_unchanged_checks': 20000, 'inputs.random-bytes': 2000, 'inputs.mutated': 10000}, 'thorough': {'state_unchanged_checks': 400000}},
    'assumptions': ['a database is retired after 60 inputs, after its first successful UPDATE and after an oversized row (stability envelope of the unchanged tree)', 'release-equivalent build'],
    'technique': 'fuzzing with runtime monitors: panic hook, hang watchdog, liveness probe, state-unchanged-after-error oracle; process deaths attributed through declared intents',
    'level_text': '~96k (quick) / 1.9M (thorough) hostile inputs are executed against the real engine; none may panic any thread, hang, kill the process, change data when it fails, or leave the database unable to answer. '
                  'Panic sites already known are keyed by file + message, so a new site or a new failure mode is a violation.',
    'level_note': 'Sampling of the input space; coverage feedback (libFuzzer) is a different technique family and is not used. Hang = no CPU/tap/tick progress for 6 s after a 60 s deadline; a slow run is inconclusive.',
}

CHECKS['C19'] = {
    'level': 'exploration',
    'exhaustive': False,
    'rule': 'a 64-value boundary grid over all column types (integer extremes, 2^24+-1, 2^53+-1, 2^63, u64::MAX, -0.0, NaN, infinities, subnormals, empty / prefix / NUL / multibyte / 10 kB text, NULL): every single value, '
            'every ordered pair and every triple is checked (exhaustive on the grid), plus random values of every type; laws: == reflexive / symmetric / transitive, == implies equal hash, order antisymmetric / transitive / total within a type / consistent with ==, '
            'numeric == and order equal the exact mathematical comparison (done in i128 / exact f64 decomposition), store-then-load identity, cast-to-own-kind identity. SQL leg: single-column tables; ORDER BY, DISTINCT, GROUP BY, =, IN and the unique index must agree with the exact order. '
            'Distinct non-trivial = distinct single values that went through round-trip/cast checks + distinct SQL probes.',
    'legs': {'quick': [{'flavour': 'prod', 'shards': 16}], 'thorough': [{'flavour': 'prod', 'shards': 16}]},
    'min_evaluations': {'quick': 500000, 'thorough': 5000000},
    'assumptions': ['mathematical comparison is computed by the harness in exact arithmetic', 'SQL-leg integers stay within +-2^53 because SQL number literals are f64 in the lexer (finding noted in DESIGN.md)'],
    'technique': 'law-style runtime monitor over exhaustive boundary grids (pairs, triples) and random values with an exact-arithmetic oracle; SQL cross-check of ORDER BY / DISTINCT / GROUP BY / IN / index lookup',
    'level_text': 'All 64 + 64^2 + 64^3 grid cases plus 320k (quick) / 6.4M (thorough) random cases are evaluated against the law set; SQL probes on 1600+ single-column tables. Exhaustive on the grid only.',
    'level_note': 'Signatures carry the special-value atom (nan, zero, beyond-2^53) when one explains the case, otherwise the type names; the six open findings are exactly those atoms.',
}

CHECKS['C20'] = {
    'level': 'exploration',
    'rule': 'structured generator over every Request / Response variant and field (empty / huge / non-ASCII strings, 0..40 columns x 0..2000 rows, NaN payloads, u64 extremes): decode(encode(m)) == m and '
            'read_message(write_message(b)) == b; frame sizes 0, 1, 16 MiB - 1, 16 MiB, 16 MiB + 1; garbage: random bytes, valid header + random tail, truncations, extreme length/count fields, bit flips, fed to '
            'Request::from_bytes, Response::from_bytes and read_message under catch_unwind with a counting global allocator (largest single allocation request must stay within 64 x input + 64 KiB; 17 MiB for the frame reader). '
            'Distinct = hash of the encoded bytes; every case is non-trivial. Server leg: the shipped axmos-server binary over loopback; a twin database in-process executes the same statements and the responses '
            'must be what the library returns rendered by the rule of query_result_to_response; hostile connections (7 classes) must end closed or answered with a well-formed frame, followed by a Ping on the long-lived connection, a process-alive check and a resident-set bound.',
    'legs': {'quick': [{'flavour': 'sysalloc', 'shards': 16}, {'flavour': 'prodsrv', 'shards': 4, 'engine': 'C20S', 'timeout': 1200}],
             'thorough': [{'flavour': 'sysalloc', 'shards': 16}, {'flavour': 'prodsrv', 'shards': 16, 'engine': 'C20S', 'timeout': 3000}]},
    'min_evaluations': {'quick': 200000, 'thorough': 3000000},
    'min_counters': {'quick': {'alloc_accounted_decodes': 300000, 'frame_boundary_cases': 5, 'server.hostile_connections': 200, 'server.liveness_pings': 200, 'server.sql_responses_checked': 60},
                     'thorough': {'alloc_accounted_decodes': 5000000, 'server.hostile_connections': 15000, 'server.sql_responses_checked': 3000}},
    'assumptions': ['the engine is built with feature verif_sysalloc so that the harness owns the global allocator', 'Response has no PartialEq: values are compared through their Debug rendering (f64 through to_bits)'],
    'technique': 'round-trip monitor + decoder fuzzing under catch_unwind with a counting allocator (allocation-bound oracle); differential monitor of the real server binary over loopback against an in-process twin, with liveness / RSS monitors after hostile connections; process deaths attributed through declared intents',
    'level_text': '128k (quick) / 1.9M (thorough) structured messages round-trip through encode/frame/decode, and 192k / 3.2M hostile byte strings go through all three decoders; none may panic, kill the process, or request more memory than a small multiple of the input.',
    'level_note': 'The server leg drives the real accept loop, request dispatch, sessions and row rendering; a connection the server merely closes counts as a protocol error answer. Hang detection relies on socket timeouts (20 s per request) and the worker watchdog.',
}

def e1_check(cid, text, min_q, min_t, counters_q):
    return {
        'level': 'fault_enumeration',
        'exhaustive': True,
        'rule': 'seeded histories in 12 shapes (autocommit, committing sessions, rolled-back sessions, checkpoints, sessions interleaved with autocommit statements and checkpoints, checkpoint between BEGIN and the first write, DDL bracketed by checkpoints, '
                '6-page cache with page stealing and rollbacks, long log of small rows followed by a checkpoint; dirty: long log with large rows, 16-page cache with large rows, VACUUM) run once with the I/O tap recording every '
                'file mutation (create / write / set_len on db file and log) in call order together with CALL/ACK markers; then EVERY prefix of the mutation stream is materialised as a crash image and opened with '
                'Database::open; recovered rows (unique ids and payloads) are compared with the model state of exactly the transactions acknowledged before that point (or that state plus the single in-flight commit). '
                'Exhaustive over the crash points of each generated history, sampled over histories. Non-trivial = every image opened after the CREATE TABLE was acknowledged; distinct = (history, prefix length).',
        'legs': {'quick': [{'flavour': 'prod', 'shards': 16}], 'thorough': [{'flavour': 'prod', 'shards': 16, 'timeout': 5400}]},
        'min_evaluations': {'quick': min_q, 'thorough': min_t},
        'min_counters': {'quick': counters_q, 'thorough': counters_q},
        'assumptions': ['crash model = process death at whole-call granularity: every write/set_len the engine issued is in the image, nothing later (no torn or reordered writes)',
                        'the tap sees every file mutation because all file I/O goes through DBFile', 'release-equivalent build, feature verif on'],
        'technique': 'crash-point enumeration over the recorded I/O stream (every prefix materialised and recovered by the real engine) with an acknowledged-transactions model as oracle',
        'level_text': text,
        'level_note': 'Shapes long-log, small-cache-steal and with-vacuum have open findings and report under one coarse signature per class; the nine clean shapes report exact signatures (crash phase, history features, error kind, age of a lost row relative to the last checkpoint), so any divergence there is new. Recovery that spins without progress is reported by the strict watchdog rule (hang:spinning).',
    }


CHECKS['C01'] = e1_check('C01', 'For each of ~340 (quick) / 4500 (thorough) histories every crash point is recovered (~25k / 350k images); every row of a transaction acknowledged before the crash point must be present after Database::open. '
                         'Classes: acked-lost.', 15000, 200000, {'crash_images_opened': 15000, 'crash_images_after_log_left_block0': 3000, 'crash_points.checkpoint': 100})
CHECKS['C02'] = e1_check('C02', 'Same images as C01, opposite direction: the recovered contents must not contain any row of a transaction that was open, rolled back or failed at the crash point, nor part of the in-flight one. '
                         'Classes: unacked-visible (rolled-back / still-open / partial-in-flight / failed-statement).', 15000, 200000, {'crash_images_opened': 15000, 'crash_points.rollback': 50, 'crash_points.in-transaction': 500})
CHECKS['C08'] = e1_check('C08', 'Every crash image must open and be readable; for a stratified sample of first-level images the recovery itself is recorded and every prefix of ITS mutation stream is opened again (second level): '
                         'it must open and converge to the contents of the uninterrupted recovery; recover-close-open must not change contents.', 15000, 200000, {'crash_images_opened': 15000, 'second_level_images_opened': 200, 'idempotence_checks': 50})

def tree_check(cid, text, extra_legs, counters):
    legs = [{'flavour': 'prod', 'shards': 16}, {'flavour': 'prod', 'shards': 16, 'args': ['--atom', 'smallex']}] + extra_legs
    return {
        'level': 'exploration',
        'rule': 'operation sequences (insert / upsert / update / remove / lookup / scan) against a real pager file through the verif facade: key orders ascending, descending, random, zigzag, duplicate-heavy; '
                'key types BigUInt, BigInt, Int, Double, Text and composites; page sizes 4-64 KiB; min_keys 3/4/6; siblings 1/2/3; uniform cells of 8-120 bytes; 60-2500 (quick) / 3500 (thorough) operations. '
                'Bounded-exhaustive stratum for cells of different sizes: every assignment of payload sizes {8, 180, 350, 1200} to 7 fresh keys (4^7) x 12 (quick) / 120 (thorough) key orders, every key looked up after every insert. '
                'After every operation a lookup is compared with a BTreeMap model; every 4th/16th operation the full forward scan is compared and the page graph is walked (equal leaf depth, sibling chain = in-order leaves both ways, '
                'child counts, cells inside the page and non-overlapping, overflow chains) and every page of the file is attributed to exactly one owner. Non-trivial = every sequence; distinct = hash of (configuration, seed).',
        'legs': {'quick': legs, 'thorough': legs},
        'min_evaluations': {'quick': 600, 'thorough': 9000},
        'min_counters': {'quick': dict(counters, small_exhaustive_sequences=190000), 'thorough': dict(counters, small_exhaustive_sequences=1900000)},
        'assumptions': ['the facade wrappers (crate::verif::facade) call the private B+tree / pager entry points unchanged', 'clean stratum = uniform small cells and a cache that holds the tree; other shapes are replayed as witnesses'],
        'technique': 'model-based runtime monitor (BTreeMap oracle after every operation) plus structural invariant walk and page-ownership audit of the live page graph through an instrumentation facade',
        'level_text': text,
        'level_note': 'Variable-size cells, cells >= 300 bytes, overflow payloads and caches smaller than the tree are open findings (witness leg, each in its own process because some kill it).',
    }


CHECKS['C10'] = tree_check('C10', '~650 (quick) / 9600 (thorough) sequences, ~300k / 6M operations, each followed by a model comparison; full scans and structural walks at quiescent points. Sampling over sequences and configurations.',
                           [{'flavour': 'prod', 'shards': 7, 'engine': 'C10W'}], {'lookups_checked': 100000, 'audits': 10000, 'scans_checked': 10000})
CHECKS['C11'] = tree_check('C11', 'Same sequences as C10 with the whole-file ownership audit as the deciding oracle (double owner, leak, free-list tail / cycle, page type confusion), plus release-and-reuse scenarios '
                           '(fill a tree, release it, all its pages must be on the free list, a second tree must allocate from there before the file grows: decided by engine-side allocation probes) and audits of live databases after SQL histories '
                           '(inserts, deletes, VACUUM, reopen; with and without a UNIQUE index) from the catalog roots.',
                           [], {'audits': 10000, 'drop_audits': 300, 'reuse_audits': 300, 'sql_audits': 2000})

CHECKS['C17'] = {
    'level': 'exploration',
    'rule': 'sequences of append / force / reopen / truncate on a real log file through the verif facade, in five size profiles (tiny records incl. empty payloads, hundreds of bytes, up to half a block, '
            'near the per-block maximum, random); undo/redo splits; one-byte-too-large records (must be refused without disturbing the log); after every force and reopen the reader is run with read-ahead 1, 2, 4 or 16 blocks '
            'and must return exactly the appended-and-forced records (field-by-field, payload byte-by-byte, LSNs strictly increasing). Non-trivial = every sequence; distinct = hash of (seed, index).',
    'legs': {'quick': [{'flavour': 'prod', 'shards': 16}], 'thorough': [{'flavour': 'prod', 'shards': 16}]},
    'min_evaluations': {'quick': 2000, 'thorough': 40000},
    'min_counters': {'quick': {'reader_checks': 20000, 'forces_beyond_block0': 2000, 'reopens': 5000, 'truncations': 2000, 'oversized_refused': 2000},
                     'thorough': {'reader_checks': 400000}},
    'assumptions': ['Drop of the log handle forces it (modelled: after reopen everything appended is covered)', 'records are at least 256 bytes below max_record_size() in the sampled part (open finding record_near_max_refused)'],
    'technique': 'model-based runtime monitor (list-of-records oracle with a forced-prefix marker) over seeded operation sequences through an instrumentation facade',
    'level_text': '2400 (quick) / 48000 (thorough) sequences of 20-200 operations; about 25k / 500k reader runs compared record by record with the model. Sampling of sequences; equality is exact.',
    'level_note': 'The facade only marshals records in and out of WriteAheadLog::{push, flush, truncate, reader}; crash points inside a force are C01/C08 business.',
}

CHECKS['C18'] = {
    'level': 'exploration',
    'exhaustive': False,
    'rule': 'exhaustive block: 5 schemas (1-2 key columns, 1-2 value columns over Int / BigInt / Double / Text) x update chains of length 0-1 by the creator x every creator state '
            '{committed-before, committed-after, active, aborted, the reader itself} x optional delete by a transaction in each of the five states x vacuum horizons {0, 10, 20}: every combination is built through the facade and decoded; '
            'sampled block: 1-3 key and 0-12 value columns of seven types, NULLs, long text, four reader snapshots, four horizons. Oracle: list-of-versions model with the snapshot-isolation visibility rule; '
            'checks: decode(encode(row)) == row, latest version, version selected per snapshot, vacuum(h) does not change what a snapshot with xmin >= h decodes. Distinct = structural hash of the case.',
    'legs': {'quick': [{'flavour': 'prod', 'shards': 16}], 'thorough': [{'flavour': 'prod', 'shards': 16}]},
    'min_evaluations': {'quick': 500000, 'thorough': 9000000},
    'min_counters': {'quick': {'snapshot_decodes': 1500000, 'vacuum_invariance_checks': 100000, 'exhaustive_cases': 250}, 'thorough': {'snapshot_decodes': 3000000}},
    'assumptions': ['the facade builds Snapshot::new(xid, xmin, xmax, active, aborted) exactly as given', 'chains of two or more updates and updates by another transaction are open findings (deterministic witnesses)'],
    'technique': 'model-based runtime monitor (list-of-versions oracle) over an exhaustively enumerated small-bounds grid plus sampled cases, through an instrumentation facade',
    'level_text': 'Every case of the small-bounds grid and 640k (quick) / 9.6M (thorough) sampled cases are encoded by the real tuple code and decoded for explicit snapshots; each decode must equal the version the model selects.',
    'level_note': 'Exhaustive only over the stated small bounds; the facade marshals values and calls TupleBuilder / Tuple / TupleReader unchanged.',
}

CHECKS['C14'] = {
    'level': 'exploration',
    'rule': '2-8 client threads share one Database and issue autocommit statements concurrently (pool sizes 1, 2, 8, 32; 20-150 statements per thread; seeded pacing; engine-side yield points armed with a per-run seed at page acquisition, '
            'job start and between the commit steps). Sampled mix in the registered run: concurrent readers of a populated table (the only mix the unchanged tree survives); mixes with writers run as witnesses, one per process. '
            'Monitors: completion under the no-progress hang rule, error classifier, impossible-read detector (unknown or duplicated row ids), final contents = acknowledged inserts. Non-trivial = every run with >= 2 threads; distinct = hash of (seed, index).',
    'legs': {'quick': [{'flavour': 'prod', 'shards': 16}, {'flavour': 'prod', 'shards': 3, 'engine': 'C14W', 'timeout': 600}],
             'thorough': [{'flavour': 'prod', 'shards': 16}, {'flavour': 'prod', 'shards': 3, 'engine': 'C14W', 'timeout': 600}]},
    'min_evaluations': {'quick': 300, 'thorough': 6000},
    'min_counters': {'quick': {'overlapping_calls_observed': 5000, 'yield_perturbations_total': 1000}, 'thorough': {'overlapping_calls_observed': 100000}},
    'assumptions': ['schedules are sampled (pacing + yield injection), not enumerated', 'hang = no harness call returned, no I/O, no yield point passed and < 0.3 s CPU during 6 s after the deadline; a slow but progressing run is inconclusive'],
    'technique': 'stress with seeded schedule perturbation (engine-side yield points) and runtime monitors: hang watchdog, error classifier, exactly-once / no-loss checker over acknowledged unique values; ThreadSanitizer leg in the thorough tier',
    'level_text': '320 (quick) / 6400 (thorough) multi-threaded runs; every call must return, fail only for permitted reasons, and leave the acknowledged data. Writers + concurrent clients deadlock on the unchanged tree (open findings).',
    'level_note': 'A clean run is not freedom from races; loom / shuttle style exhaustive schedule exploration is a different technique family and is not used.',
}


def asan(n, **kw):
    d = {'flavour': 'asan', 'shards': n, 'tier_override': 'quick', 'shard_offset': 100, 'timeout': 2400}
    d.update(kw)
    return d


SAN_NOTE = ' AddressSanitizer leg: the same monitor on other seeds in an ASan build of engine + harness; any report (heap/stack overflow, use after free, ...) kills the worker and is reported with the declared intent.'
for cid, q, t in [('C10', 2, 8), ('C17', 4, 16), ('C18', 2, 8), ('C19', 2, 8), ('C20', 4, 16)]:
    CHECKS[cid]['legs']['quick'] = CHECKS[cid]['legs']['quick'] + [asan(q)]
    CHECKS[cid]['legs']['thorough'] = CHECKS[cid]['legs']['thorough'] + [asan(t)]
    CHECKS[cid]['technique'] += '; AddressSanitizer leg'
    CHECKS[cid]['level_note'] += SAN_NOTE
for cid, t in [('C16', 4), ('C05', 2), ('C08', 2), ('C11', 4)]:
    CHECKS[cid]['legs']['thorough'] = CHECKS[cid]['legs']['thorough'] + [asan(t)]
    CHECKS[cid]['technique'] += '; AddressSanitizer leg in the thorough tier'
    CHECKS[cid]['level_note'] += SAN_NOTE
CHECKS['C10']['legs']['thorough'] = CHECKS['C10']['legs']['thorough'] + [asan(16, args=['--atom', 'smallex'], shard_offset=0)]
for cid in ['C18', 'C19']:
    CHECKS[cid]['legs']['thorough'] = CHECKS[cid]['legs']['thorough'] + [{'flavour': 'miri', 'shards': 4, 'tier_override': 'miri', 'shard_offset': 200, 'timeout': 3000}]
    CHECKS[cid]['technique'] += '; Miri leg in the thorough tier'
    CHECKS[cid]['level_note'] += ' Miri leg (thorough): about 250 cases per run interpreted by Miri (undefined behaviour, misaligned or uninitialised reads in the tuple / value code end the worker).'
CHECKS['C14']['legs']['quick'] = CHECKS['C14']['legs']['quick'] + [{'flavour': 'tsan', 'shards': 2, 'tier_override': 'quick', 'shard_offset': 100, 'timeout': 2400}]
CHECKS['C14']['legs']['thorough'] = CHECKS['C14']['legs']['thorough'] + [{'flavour': 'tsan', 'shards': 16, 'tier_override': 'quick', 'shard_offset': 100, 'timeout': 2400}]
CHECKS['C14']['technique'] = CHECKS['C14']['technique'].replace('ThreadSanitizer leg in the thorough tier', 'ThreadSanitizer leg (instrumented std)')
CHECKS['C14']['level_note'] += ' ThreadSanitizer leg: the concurrent-reader runs repeated in a TSan build with -Zbuild-std; a data-race report ends the worker with exit 66 and is a violation.'

NOT_APPLICABLE = [{'property_id': c, 'reason': 'check not built yet in this session (work in progress, see DESIGN.md)'} for c in ALL if c not in CHECKS]
