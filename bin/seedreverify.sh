#!/bin/bash
# seedreverify.sh : re-confirm every kept seeded change against /repo's current HEAD in one scratch worktree
# (suite passes with it; demo fails with it, passes without it). Development helper.
wt=/tmp/wt_reverify
git -C /repo worktree remove --force $wt 2>/dev/null
git -C /repo worktree add -q $wt HEAD || exit 2
cd $wt
for d in /verif/seeded/*/; do
  n=$(basename $d)
  feat=""; grep -q "verif::" $d/demo_seeded.rs && feat="--features verif"
  git checkout -q -- . ; rm -f crates/axmos-db/tests/demo_seeded.rs
  git apply $d/patch.diff || { echo "$n: PATCH DOES NOT APPLY"; continue; }
  suite=""
  for try in 1 2 3; do  # tree::tests share /tmp/axmos.log and flake under load: a failure must repeat to count
    out=$(cargo nextest run --workspace --no-fail-fast --test-threads 8 --offline 2>&1)
    suite="$(echo "$out" | grep -E "tests run" | tail -1) $(echo "$out" | grep -E "^ +FAIL \[" | sed 's/.*axmosdb //' | sort -u | tr '\n' ' ')"
    echo "$out" | grep -q "645 passed" && break
  done
  mkdir -p crates/axmos-db/tests
  cp $d/demo_seeded.rs crates/axmos-db/tests/demo_seeded.rs
  with=$(cargo test --offline --release -p axmosdb $feat --test demo_seeded 2>&1 | grep -E "^test result" | tail -1)
  git apply -R $d/patch.diff
  without=$(cargo test --offline --release -p axmosdb $feat --test demo_seeded 2>&1 | grep -E "^test result" | tail -1)
  echo "$n | suite: $suite | demo with: $with | demo without: $without"
done
cd /; git -C /repo worktree remove --force $wt
