#!/bin/bash
# dev helper: bin/burnin.sh "C03 C05" "1 2 3" [quick|thorough]  -> prints summary + anything that is not a KNOWN-FINDING line
ids="$1"; seeds="$2"; tier="${3:-quick}"
for c in $ids; do for s in $seeds; do
  VERIF_SEED=$s "$(dirname "$0")/vcheck" $c --tier $tier 2>&1 | grep -v conda | grep -v "^KNOWN-FINDING" | cut -c1-260
done; done
