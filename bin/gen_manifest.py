#!/usr/bin/env python3
"""Regenerates MANIFEST.json from bin/checks.py (single source of truth for what is claimed)."""
import json, os, sys
VERIF = os.path.dirname(os.path.dirname(os.path.abspath(__file__)))
sys.path.insert(0, os.path.join(VERIF, 'bin'))
from checks import CHECKS, NOT_APPLICABLE, HOOK_COMMITS, FLAVOURS  # noqa
BASELINE_OFF = "cd /repo && cargo nextest run --workspace --no-fail-fast --test-threads 8 --offline"
def _setup():
    parts = []
    for name in ['prod', 'sysalloc', 'asan', 'tsan']:
        f = FLAVOURS[name]
        env = ' '.join(f"{k}='{v}'" for k, v in f.get('env', {}).items())
        parts.append(f"CARGO_NET_OFFLINE=true {env} {' '.join(f['cmd'])}".replace('  ', ' '))
    parts.append('CARGO_NET_OFFLINE=true cargo build --release --offline --manifest-path /repo/Cargo.toml -p axmosdb --bin axmos-server --target-dir ../target/server')
    return 'cd /verif/harness && ' + ' && '.join(parts)


SETUP = _setup()
m = {
    "version": 1,
    "setup_cmd": SETUP,
    "hooks": {
        "guard": "cargo features `verif` (I/O tap, facade, yield points) and `verif_sysalloc` (system allocator for sanitizers) of crate axmosdb",
        "enable": "the harness crate depends on axmosdb = { path = \"/repo/crates/axmos-db\", features = [\"verif\"] }; sanitizer flavours add verif_sysalloc",
        "baseline_off_cmd": BASELINE_OFF,
        "source_commits": HOOK_COMMITS,
        "add_only": False,
    },
    "engines": [],
    "checks": [],
    "not_applicable": NOT_APPLICABLE,
    "notes": "Every check: bin/vcheck <ID> --tier <tier>; VERIF_SEED seeds all PRNGs. Exit 0 = held on everything explored (KNOWN-FINDING lines for entries of known_findings.jsonl), 1 = VIOLATION, 2 = harness error. See DESIGN.md.",
}
for cid in sorted(CHECKS):
    c = CHECKS[cid]
    m["checks"].append({
        "property_id": cid,
        "quick_cmd": f"bin/vcheck {cid} --tier quick",
        "thorough_cmd": f"bin/vcheck {cid} --tier thorough",
        "evidence_file": f"/verif/evidence/{cid}.json",
        "replay_cmd_template": "bin/vreplay {path}",
        "engine": c.get("engine_name", cid),
        "level_claimed": {"category": c["level"], "text": c["level_text"], "design_ref": c.get("design_ref", "DESIGN.md §4 " + cid)},
        "level_note": c["level_note"],
        "technique": c["technique"],
    })
json.dump(m, open(os.path.join(VERIF, "MANIFEST.json"), "w"), indent=1)
print("MANIFEST.json written:", len(m["checks"]), "checks,", len(NOT_APPLICABLE), "not applicable")
