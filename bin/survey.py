#!/usr/bin/env python3
# development helper: run a check over seeds and attribute failures to atoms
import json,collections,subprocess,sys,os
check=sys.argv[1]; atom=sys.argv[2]; seeds=range(1,int(sys.argv[3])+1); tier=sys.argv[4] if len(sys.argv)>4 else 'thorough'
procs=[]
for s in seeds:
    out=f'/tmp/sv_{check}_{s}.json'
    if os.path.exists(out): os.remove(out)
    procs.append((s,subprocess.Popen(['/verif/target/prod/release/axv',check,'--seed',str(s),'--tier',tier,'--atom',atom,'--out',out],stderr=subprocess.DEVNULL,stdout=subprocess.DEVNULL)))
for s,p in procs:
    rc=p.wait()
    if rc!=0: print('seed',s,'exit',rc)
tot=collections.Counter(); fail=collections.Counter(); sets=collections.Counter(); sigs=collections.Counter(); ex={}
for s in seeds:
    try: r=json.load(open(f'/tmp/sv_{check}_{s}.json'))
    except Exception as e: print('no report for seed',s); continue
    for k,v in r['counters'].items():
        if k.startswith('atom.'): tot[k[5:]]+=v
        if k.startswith('failatom.'): fail[k[9:]]+=v
        if k.startswith('failset.'): sets[k[8:]]+=v
    for v in r['violations']:
        sigs[v['sig']]+=v['count']; ex.setdefault(v['sig'],v['examples'][0])
    if r['inconclusive']: print('INCONCLUSIVE',r['inconclusive'])
print(sum(sets.values()),'failures; evaluations by atom:')
for a in sorted(tot, key=lambda a:-fail[a]/max(tot[a],1))[:25]:
    print(f'{a:32s} {fail[a]:5d}/{tot[a]:6d} {fail[a]/tot[a]:.3f}')
print()
for k,v in sets.most_common(25): print(v,k)
print()
for k,v in sigs.most_common(30):
    print(v,k)
    c=ex[k]['case']
    if isinstance(c,dict) and 'stmt' in c:
        for st in c.get('setup',[]):
            if st.startswith('CREATE'): print('     ',st)
        print('      STMT:',c.get('stmt'))
        print('      engine:',str(c.get('engine'))[:160]); print('      model :',str(c.get('model'))[:160]); print('      diff:',c.get('diff'),'panics:',c.get('panics'))
    if isinstance(c,dict) and c.get('script'):
        print('      DETAIL:',ex[k]['detail'][:300]); print('      SCRIPT:',' // '.join(c['script'])[:1500]); print('      panics:',c.get('panics'))
