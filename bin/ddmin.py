#!/usr/bin/env python3
"""dev helper: delta-debug a probe script w.r.t. a predicate on the probe's exit code / output.
usage: ddmin.py script.sql 'crash' | 'grep:<text>' """
import subprocess, sys
lines=[l for l in open(sys.argv[1]).read().split('\n') if l.strip()]
pred=sys.argv[2]
def bad(ls):
    p=subprocess.run(['/verif/target/prod/release/probe'],input='\n'.join(ls)+'\n',capture_output=True,text=True,timeout=120)
    if pred=='crash': return p.returncode<0 or p.returncode==139
    return pred[5:] in p.stdout
assert bad(lines), 'original does not fail'
n=2
while len(lines)>=2:
    chunk=max(1,len(lines)//n); changed=False
    for i in range(0,len(lines),chunk):
        cand=lines[:i]+lines[i+chunk:]
        if cand and cand[0].startswith('CREATE') and bad(cand):
            lines=cand; n=max(n-1,2); changed=True; break
    if not changed:
        if chunk==1: break
        n=min(n*2,len(lines))
print('\n'.join(lines))
