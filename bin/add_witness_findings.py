#!/usr/bin/env python3
"""dev helper: add an `open` known_findings.jsonl entry for every corpus/<ID>/*.wit that is not listed yet"""
import os, json, sys
V = os.path.dirname(os.path.dirname(os.path.abspath(__file__)))
cid = sys.argv[1]
path = os.path.join(V, 'known_findings.jsonl')
have = set()
lines = [l for l in open(path) if l.strip()]
for l in lines:
    have.add(json.loads(l)['sig'])
d = os.path.join(V, 'corpus', cid)
n = 0
with open(path, 'a') as fh:
    for f in sorted(os.listdir(d)):
        if not f.endswith('.wit'):
            continue
        sig = f'{cid}:witness:{f[:-4]}'
        if sig in have:
            continue
        what = [l for l in open(os.path.join(d, f)) if l.startswith('-- what:')][0][8:].strip()
        fh.write(json.dumps({"property": cid, "sig": sig, "status": "open", "what": what, "witness": f"corpus/{cid}/{f}"}) + '\n')
        n += 1
print('added', n)
