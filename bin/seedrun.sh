#!/bin/bash
# seedrun.sh <name> <patch> "<check ids>" [tier] : apply a seeded change to /repo, run the given checks, undo it.
# (development helper; results go to /verif/seeded/<name>/vcheck_<ID>.log)
name=$1; patch=$2; ids=$3; tier=${4:-quick}
cd /repo && git diff --quiet || { echo "/repo not clean"; exit 2; }
git -C /repo apply $patch || exit 2
mkdir -p /verif/seeded/$name
for id in $ids; do
  (cd /verif && bin/vcheck $id --tier $tier > /verif/seeded/$name/vcheck_${id}_$tier.log 2>&1; echo "$name $id exit $?"; grep -E "^VIOLATION|signature:|HARNESS|new_violations" /verif/seeded/$name/vcheck_${id}_$tier.log | head -12)
done
git -C /repo checkout -- .
git -C /repo status --short | head -3
