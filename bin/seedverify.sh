#!/bin/bash
# seedverify.sh <worktree> : confirm a seeded change in its scratch worktree: suite passes with it, demo fails with it and passes without it.
# (development helper for /verif/seeded; not used by any registered check)
wt=$1; cd $wt || exit 2
feat=""; grep -q "verif::" demo_seeded.rs && feat="--features verif"
git stash list | grep -q . && { echo "stash not empty"; }
test -s mutation.patch || { echo "no mutation.patch"; exit 2; }
# state: change applied?
git diff --quiet -- crates/axmos-db/src && git apply mutation.patch
mkdir -p crates/axmos-db/tests; 
rm -f crates/axmos-db/tests/demo_seeded.rs
echo "== suite with change"; cargo nextest run --workspace --no-fail-fast --test-threads 8 --offline 2>&1 | grep -E "tests run|FAIL|SIGSEGV" | head -8
cp demo_seeded.rs crates/axmos-db/tests/demo_seeded.rs
echo "== demo with change"; cargo test --offline --release -p axmosdb $feat --test demo_seeded 2>&1 | grep -E "^test |test result|error" | head -12
git apply -R mutation.patch
echo "== demo without change"; cargo test --offline --release -p axmosdb $feat --test demo_seeded 2>&1 | grep -E "^test |test result|error" | head -12
git apply mutation.patch
rm -f crates/axmos-db/tests/demo_seeded.rs
