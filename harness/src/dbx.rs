//! Thin wrapper around the engine's public API: canonical values/outcomes, panic capture,
//! scratch directories. Contains no oracle logic.
use axmosdb::runtime::QueryResult;
use axmosdb::tcp::session::Session;
use axmosdb::{DBConfig, DataType, Database};
use std::path::{Path, PathBuf};
use std::sync::Mutex;
use std::sync::atomic::{AtomicU64, Ordering};

/// Canonical value used by every oracle (never the engine's own comparison).
#[derive(Clone, Debug, PartialEq)]
pub enum V {
    Null,
    Bool(bool),
    I(i128),
    F(f64),
    T(String),
}

impl V {
    /// Canonical key: equal values <=> equal keys (NaN == NaN, -0.0 != 0.0 kept distinct on purpose).
    pub fn key(&self) -> String {
        match self {
            V::Null => "N".into(),
            V::Bool(b) => format!("B{}", *b as u8),
            V::I(i) => format!("I{}", i),
            V::F(f) => {
                if f.fract() == 0.0 && f.abs() < 1e15 {
                    format!("I{}", *f as i128)
                } else if f.is_finite() {
                    // 10 significant digits: tolerant to summation order, strict otherwise
                    format!("F{:.9e}", f)
                } else {
                    format!("F{:?}", f)
                }
            }
            V::T(s) => format!("T{}", s),
        }
    }
    pub fn is_null(&self) -> bool {
        matches!(self, V::Null)
    }
    pub fn as_i(&self) -> Option<i128> {
        match self {
            V::I(i) => Some(*i),
            V::F(f) if f.fract() == 0.0 && f.abs() < 1e15 => Some(*f as i128),
            _ => None,
        }
    }
    pub fn as_f(&self) -> Option<f64> {
        match self {
            V::I(i) => Some(*i as f64),
            V::F(f) => Some(*f),
            _ => None,
        }
    }
    pub fn show(&self) -> String {
        match self {
            V::Null => "NULL".into(),
            V::Bool(b) => b.to_string(),
            V::I(i) => i.to_string(),
            V::F(f) => format!("{:?}", f),
            V::T(s) => format!("'{}'", s),
        }
    }
    /// SQL literal text.
    pub fn sql(&self) -> String {
        match self {
            V::Null => "NULL".into(),
            V::Bool(b) => if *b { "TRUE".into() } else { "FALSE".into() },
            V::I(i) => i.to_string(),
            V::F(f) => {
                let s = format!("{:?}", f);
                s
            }
            V::T(s) => format!("'{}'", s.replace('\'', "''")),
        }
    }
}

pub fn from_dt(d: &DataType) -> V {
    match d {
        DataType::Null => V::Null,
        DataType::Bool(b) => V::Bool(b.0),
        DataType::Int(x) => V::I(x.0 as i128),
        DataType::BigInt(x) => V::I(x.0 as i128),
        DataType::UInt(x) => V::I(x.0 as i128),
        DataType::BigUInt(x) => V::I(x.0 as i128),
        DataType::Float(x) => V::F(x.0 as f64),
        DataType::Double(x) => V::F(x.0),
        DataType::Blob(b) => match b.as_str() {
            Ok(s) => V::T(s.to_string()),
            Err(_) => V::T(format!("<bytes:{:?}>", b.data().map(|d| d.to_vec()).unwrap_or_default())),
        },
    }
}

pub type RowV = Vec<V>;

#[derive(Clone, Debug, PartialEq)]
pub enum Out {
    Rows(Vec<RowV>),
    Affected(u64),
    Ddl(String),
    Err(String),
}

impl Out {
    pub fn is_err(&self) -> bool {
        matches!(self, Out::Err(_))
    }
    pub fn is_ok(&self) -> bool {
        !self.is_err()
    }
    pub fn rows(&self) -> Option<&Vec<RowV>> {
        match self {
            Out::Rows(r) => Some(r),
            _ => None,
        }
    }
    pub fn err(&self) -> Option<&str> {
        match self {
            Out::Err(e) => Some(e),
            _ => None,
        }
    }
    pub fn show(&self) -> String {
        match self {
            Out::Rows(r) => {
                let mut s = format!("ROWS[{}]", r.len());
                for row in r.iter().take(12) {
                    s.push_str(" (");
                    s.push_str(&row.iter().map(|v| v.show()).collect::<Vec<_>>().join(","));
                    s.push(')');
                }
                if r.len() > 12 {
                    s.push_str(" ...");
                }
                s
            }
            Out::Affected(n) => format!("AFFECTED {}", n),
            Out::Ddl(d) => format!("DDL {}", d),
            Out::Err(e) => format!("ERR {}", e.chars().take(160).collect::<String>()),
        }
    }
}

pub fn row_key(r: &RowV) -> String {
    r.iter().map(|v| v.key()).collect::<Vec<_>>().join("\u{1}")
}

/// Sorted multiset of row keys.
pub fn bag(rows: &[RowV]) -> Vec<String> {
    let mut k: Vec<String> = rows.iter().map(row_key).collect();
    k.sort();
    k
}

pub fn conv(r: Result<QueryResult, String>) -> Out {
    match r {
        Ok(QueryResult::Rows(rows)) => Out::Rows(rows.iterrows().map(|row| row.iter().map(from_dt).collect()).collect()),
        Ok(QueryResult::RowsAffected(n)) => Out::Affected(n),
        Ok(QueryResult::Ddl(d)) => Out::Ddl(format!("{:?}", d)),
        Err(e) => Out::Err(e),
    }
}

// ---------------------------------------------------------------------------------------------
// scratch directories

static DIR_SEQ: AtomicU64 = AtomicU64::new(0);

pub fn work_root() -> PathBuf {
    let root = std::env::var("AXV_WORK").unwrap_or_else(|_| "/verif/target/work".to_string());
    PathBuf::from(root).join(format!("p{}", std::process::id()))
}

pub fn fresh_dir(tag: &str) -> PathBuf {
    let n = DIR_SEQ.fetch_add(1, Ordering::SeqCst);
    let d = work_root().join(format!("{}{}", tag, n));
    let _ = std::fs::remove_dir_all(&d);
    std::fs::create_dir_all(&d).expect("create scratch dir");
    d
}

pub fn rm_dir(d: &Path) {
    let _ = std::fs::remove_dir_all(d);
}

pub fn cleanup_work_root() {
    let _ = std::fs::remove_dir_all(work_root());
}

pub fn copy_dir(from: &Path, to: &Path) {
    std::fs::create_dir_all(to).unwrap();
    for e in std::fs::read_dir(from).unwrap() {
        let e = e.unwrap();
        if e.file_type().unwrap().is_file() {
            std::fs::copy(e.path(), to.join(e.file_name())).unwrap();
        }
    }
}

// ---------------------------------------------------------------------------------------------
// database wrapper

pub const DB_FILE: &str = "db.axm";

pub fn cfg(page: usize, cache: usize, pool: usize, min_keys: usize, siblings: usize) -> DBConfig {
    DBConfig::new(page, cache, pool, min_keys, siblings)
}

pub fn default_cfg() -> DBConfig {
    DBConfig::new(4096, 10000, 8, 3, 2)
}

pub struct Dbx {
    pub db: Option<Database>,
    pub dir: PathBuf,
    pub cfg: DBConfig,
    /// keep the directory when dropped
    pub keep: bool,
}

impl Dbx {
    pub fn create(cfg: DBConfig) -> Dbx {
        let dir = fresh_dir("db");
        Self::create_in(dir, cfg)
    }
    pub fn create_in(dir: PathBuf, cfg: DBConfig) -> Dbx {
        let db = Database::create(dir.join(DB_FILE), cfg).expect("Database::create");
        Dbx { db: Some(db), dir, cfg, keep: false }
    }
    pub fn open_in(dir: PathBuf, cfg: DBConfig) -> Result<Dbx, String> {
        let db = Database::open(dir.join(DB_FILE), cfg).map_err(|e| e.to_string())?;
        Ok(Dbx { db: Some(db), dir, cfg, keep: false })
    }
    pub fn path(&self) -> PathBuf {
        self.dir.join(DB_FILE)
    }
    pub fn d(&self) -> &Database {
        self.db.as_ref().expect("db open")
    }
    pub fn exec(&self, sql: &str) -> Out {
        tick();
        conv(self.d().execute(sql).map_err(|e| e.to_string()))
    }
    pub fn batch(&self, stmts: &[&str]) -> Result<Vec<Out>, String> {
        tick();
        self.d().execute_batch(stmts).map(|v| v.into_iter().map(|r| conv(Ok(r))).collect()).map_err(|e| e.to_string())
    }
    pub fn explain(&self, sql: &str) -> Result<String, String> {
        tick();
        self.d().explain(sql).map_err(|e| e.to_string())
    }
    pub fn session(&self) -> Result<Sx, String> {
        tick();
        self.d().session().map(|s| Sx { s: Some(s) }).map_err(|e| e.to_string())
    }
    pub fn flush(&self) -> Result<(), String> {
        tick();
        self.d().flush().map_err(|e| e.to_string())
    }
    pub fn vacuum(&self) -> Result<u64, String> {
        tick();
        self.d().vacuum().map(|s| s.total_freed() as u64).map_err(|e| e.to_string())
    }
    pub fn analyze(&self) -> Result<(), String> {
        tick();
        self.d().analyze(1.0, 100000).map_err(|e| e.to_string())
    }
    /// Clean close (drop => checkpoint).
    pub fn close(&mut self) {
        tick();
        self.db.take();
    }
    pub fn reopen(&mut self, cfg: DBConfig) -> Result<(), String> {
        self.close();
        tick();
        let db = Database::open(self.path(), cfg).map_err(|e| e.to_string())?;
        self.cfg = cfg;
        self.db = Some(db);
        Ok(())
    }
    /// Rows of `SELECT * FROM t` as a sorted bag, or the error.
    pub fn table_bag(&self, table: &str) -> Result<Vec<String>, String> {
        match self.exec(&format!("SELECT * FROM {}", table)) {
            Out::Rows(r) => Ok(bag(&r)),
            Out::Err(e) => Err(e),
            o => Err(format!("unexpected {}", o.show())),
        }
    }
}

impl Drop for Dbx {
    fn drop(&mut self) {
        self.db.take();
        if !self.keep {
            rm_dir(&self.dir);
        }
    }
}

pub struct Sx {
    pub s: Option<Session>,
}

impl Sx {
    pub fn exec(&mut self, sql: &str) -> Out {
        tick();
        conv(self.s.as_mut().expect("session").execute(sql).map_err(|e| e.to_string()))
    }
    pub fn commit(mut self) -> Result<(), String> {
        tick();
        let mut s = self.s.take().unwrap();
        let r = s.commit_transaction().map_err(|e| e.to_string());
        // Drop for Session calls abort_transaction; after a successful commit that is a no-op error.
        drop(s);
        r
    }
    pub fn rollback(mut self) -> Result<(), String> {
        tick();
        let mut s = self.s.take().unwrap();
        let r = s.abort_transaction().map_err(|e| e.to_string());
        drop(s);
        r
    }
}

// ---------------------------------------------------------------------------------------------
// panic capture and progress counter

#[derive(Clone, Debug)]
pub struct PanicRec {
    pub thread: String,
    pub location: String,
    pub message: String,
}

static PANICS: Mutex<Vec<PanicRec>> = Mutex::new(Vec::new());
pub static PROGRESS: AtomicU64 = AtomicU64::new(0);

pub fn tick() {
    PROGRESS.fetch_add(1, Ordering::Relaxed);
}

pub fn install_panic_hook() {
    std::panic::set_hook(Box::new(|info| {
        let loc = info.location().map(|l| format!("{}:{}", l.file(), l.line())).unwrap_or_else(|| "?".into());
        let msg = if let Some(s) = info.payload().downcast_ref::<&str>() {
            s.to_string()
        } else if let Some(s) = info.payload().downcast_ref::<String>() {
            s.clone()
        } else {
            "<non-string panic>".into()
        };
        let th = std::thread::current().name().unwrap_or("?").to_string();
        if std::env::var("AXV_PANIC_PRINT").is_ok() {
            eprintln!("PANIC [{}] {}: {}", th, loc, msg.chars().take(300).collect::<String>());
        }
        if let Ok(mut g) = PANICS.lock() {
            g.push(PanicRec { thread: th, location: loc, message: msg.chars().take(300).collect() });
        }
    }));
}

pub fn take_panics() -> Vec<PanicRec> {
    std::mem::take(&mut *PANICS.lock().unwrap())
}

pub fn panic_count() -> usize {
    PANICS.lock().unwrap().len()
}

/// Strip the path prefix and line number so unrelated edits do not rename a site: "runtime/eval.rs".
pub fn panic_site(loc: &str) -> String {
    let p = loc.split(':').next().unwrap_or(loc);
    match p.find("/src/") {
        Some(i) => p[i + 5..].to_string(),
        None => p.to_string(),
    }
}
