//! Minimal JSON value, writer and parser (no external crates).
use std::collections::BTreeMap;
use std::fmt::Write;

#[derive(Clone, Debug, PartialEq)]
pub enum J {
    Null,
    Bool(bool),
    Int(i64),
    Num(f64),
    Str(String),
    Arr(Vec<J>),
    Obj(BTreeMap<String, J>),
}

impl J {
    pub fn obj() -> J {
        J::Obj(BTreeMap::new())
    }
    pub fn set(&mut self, k: &str, v: impl Into<J>) -> &mut Self {
        if let J::Obj(m) = self {
            m.insert(k.to_string(), v.into());
        }
        self
    }
    pub fn with(mut self, k: &str, v: impl Into<J>) -> Self {
        self.set(k, v);
        self
    }
    pub fn get(&self, k: &str) -> Option<&J> {
        match self {
            J::Obj(m) => m.get(k),
            _ => None,
        }
    }
    pub fn as_str(&self) -> Option<&str> {
        match self {
            J::Str(s) => Some(s),
            _ => None,
        }
    }
    pub fn as_i64(&self) -> Option<i64> {
        match self {
            J::Int(i) => Some(*i),
            J::Num(f) => Some(*f as i64),
            _ => None,
        }
    }
    pub fn as_arr(&self) -> Option<&Vec<J>> {
        match self {
            J::Arr(a) => Some(a),
            _ => None,
        }
    }
    pub fn to_string(&self) -> String {
        let mut s = String::new();
        self.write(&mut s);
        s
    }
    fn write(&self, out: &mut String) {
        match self {
            J::Null => out.push_str("null"),
            J::Bool(b) => out.push_str(if *b { "true" } else { "false" }),
            J::Int(i) => {
                let _ = write!(out, "{}", i);
            }
            J::Num(f) => {
                if f.is_finite() {
                    let _ = write!(out, "{}", f);
                } else {
                    out.push_str("null");
                }
            }
            J::Str(s) => write_str(out, s),
            J::Arr(a) => {
                out.push('[');
                for (i, x) in a.iter().enumerate() {
                    if i > 0 {
                        out.push(',');
                    }
                    x.write(out);
                }
                out.push(']');
            }
            J::Obj(m) => {
                out.push('{');
                for (i, (k, v)) in m.iter().enumerate() {
                    if i > 0 {
                        out.push(',');
                    }
                    write_str(out, k);
                    out.push(':');
                    v.write(out);
                }
                out.push('}');
            }
        }
    }
    pub fn parse(s: &str) -> Result<J, String> {
        let b = s.as_bytes();
        let mut p = 0usize;
        let v = parse_val(b, &mut p)?;
        skip_ws(b, &mut p);
        if p != b.len() {
            return Err(format!("trailing data at {}", p));
        }
        Ok(v)
    }
}

fn write_str(out: &mut String, s: &str) {
    out.push('"');
    for c in s.chars() {
        match c {
            '"' => out.push_str("\\\""),
            '\\' => out.push_str("\\\\"),
            '\n' => out.push_str("\\n"),
            '\r' => out.push_str("\\r"),
            '\t' => out.push_str("\\t"),
            c if (c as u32) < 0x20 => {
                let _ = write!(out, "\\u{:04x}", c as u32);
            }
            c => out.push(c),
        }
    }
    out.push('"');
}

fn skip_ws(b: &[u8], p: &mut usize) {
    while *p < b.len() && (b[*p] as char).is_ascii_whitespace() {
        *p += 1;
    }
}

fn parse_val(b: &[u8], p: &mut usize) -> Result<J, String> {
    skip_ws(b, p);
    if *p >= b.len() {
        return Err("eof".into());
    }
    match b[*p] {
        b'n' => {
            *p += 4;
            Ok(J::Null)
        }
        b't' => {
            *p += 4;
            Ok(J::Bool(true))
        }
        b'f' => {
            *p += 5;
            Ok(J::Bool(false))
        }
        b'"' => Ok(J::Str(parse_str(b, p)?)),
        b'[' => {
            *p += 1;
            let mut a = vec![];
            loop {
                skip_ws(b, p);
                if *p < b.len() && b[*p] == b']' {
                    *p += 1;
                    break;
                }
                a.push(parse_val(b, p)?);
                skip_ws(b, p);
                if *p < b.len() && b[*p] == b',' {
                    *p += 1;
                }
            }
            Ok(J::Arr(a))
        }
        b'{' => {
            *p += 1;
            let mut m = BTreeMap::new();
            loop {
                skip_ws(b, p);
                if *p < b.len() && b[*p] == b'}' {
                    *p += 1;
                    break;
                }
                let k = parse_str(b, p)?;
                skip_ws(b, p);
                if *p >= b.len() || b[*p] != b':' {
                    return Err(format!("expected ':' at {}", p));
                }
                *p += 1;
                let v = parse_val(b, p)?;
                m.insert(k, v);
                skip_ws(b, p);
                if *p < b.len() && b[*p] == b',' {
                    *p += 1;
                }
            }
            Ok(J::Obj(m))
        }
        _ => {
            let st = *p;
            while *p < b.len() && (b[*p] == b'-' || b[*p] == b'+' || b[*p] == b'.' || b[*p] == b'e' || b[*p] == b'E' || b[*p].is_ascii_digit()) {
                *p += 1;
            }
            let t = std::str::from_utf8(&b[st..*p]).map_err(|e| e.to_string())?;
            if let Ok(i) = t.parse::<i64>() {
                Ok(J::Int(i))
            } else {
                t.parse::<f64>().map(J::Num).map_err(|e| format!("bad number {t}: {e}"))
            }
        }
    }
}

fn parse_str(b: &[u8], p: &mut usize) -> Result<String, String> {
    if b[*p] != b'"' {
        return Err(format!("expected string at {}", p));
    }
    *p += 1;
    let mut out: Vec<u8> = vec![];
    while *p < b.len() {
        let c = b[*p];
        *p += 1;
        match c {
            b'"' => return String::from_utf8(out).map_err(|e| e.to_string()),
            b'\\' => {
                let e = b[*p];
                *p += 1;
                match e {
                    b'n' => out.push(b'\n'),
                    b'r' => out.push(b'\r'),
                    b't' => out.push(b'\t'),
                    b'b' => out.push(8),
                    b'f' => out.push(12),
                    b'u' => {
                        let h = std::str::from_utf8(&b[*p..*p + 4]).map_err(|e| e.to_string())?;
                        *p += 4;
                        let cp = u32::from_str_radix(h, 16).map_err(|e| e.to_string())?;
                        let ch = char::from_u32(cp).unwrap_or('\u{fffd}');
                        let mut buf = [0u8; 4];
                        out.extend_from_slice(ch.encode_utf8(&mut buf).as_bytes());
                    }
                    other => out.push(other),
                }
            }
            c => out.push(c),
        }
    }
    Err("unterminated string".into())
}

impl From<&str> for J {
    fn from(s: &str) -> J {
        J::Str(s.to_string())
    }
}
impl From<String> for J {
    fn from(s: String) -> J {
        J::Str(s)
    }
}
impl From<&String> for J {
    fn from(s: &String) -> J {
        J::Str(s.clone())
    }
}
impl From<i64> for J {
    fn from(i: i64) -> J {
        J::Int(i)
    }
}
impl From<u64> for J {
    fn from(i: u64) -> J {
        J::Int(i as i64)
    }
}
impl From<usize> for J {
    fn from(i: usize) -> J {
        J::Int(i as i64)
    }
}
impl From<i32> for J {
    fn from(i: i32) -> J {
        J::Int(i as i64)
    }
}
impl From<f64> for J {
    fn from(f: f64) -> J {
        J::Num(f)
    }
}
impl From<bool> for J {
    fn from(b: bool) -> J {
        J::Bool(b)
    }
}
impl<T: Into<J>> From<Vec<T>> for J {
    fn from(v: Vec<T>) -> J {
        J::Arr(v.into_iter().map(|x| x.into()).collect())
    }
}
