//! Generators for schemas, populations, expressions, queries and DML, parameterised by the set of
//! feature atoms that may be used (the "language"). Every generated statement knows its atoms.
use crate::dbx::V;
use crate::model::*;
use crate::rng::Rng;
use std::collections::BTreeSet;

#[derive(Clone, Debug)]
pub struct Lang {
    /// atoms that must not be generated
    pub banned: BTreeSet<String>,
}

impl Lang {
    pub fn all() -> Lang {
        Lang { banned: BTreeSet::new() }
    }
    pub fn without(atoms: &[&str]) -> Lang {
        Lang { banned: atoms.iter().map(|s| s.to_string()).collect() }
    }
    pub fn allows(&self, a: &str) -> bool {
        !self.banned.contains(a)
    }
    pub fn allow(&mut self, a: &str) {
        self.banned.remove(a);
    }
}

pub const TEXT_VOCAB: &[&str] = &["", "a", "ab", "abc", "b", "B", "ba", "zz", "a b", "xyz"];
pub const LIKE_PATS: &[&str] = &["a%", "%b", "%b%", "a_", "_", "%", "ab", "a_c", "%z"];

pub struct Gen<'a> {
    pub r: &'a mut Rng,
    pub lang: &'a Lang,
}

/// A column visible in an expression scope.
#[derive(Clone, Debug)]
pub struct ScopeCol {
    pub qual: Option<String>,
    pub name: String,
    pub ty: Ty,
}

impl<'a> Gen<'a> {
    pub fn new(r: &'a mut Rng, lang: &'a Lang) -> Self {
        Gen { r, lang }
    }

    // ----------------------------------------------------------------- schema + population
    pub fn col_types(&self) -> Vec<Ty> {
        let mut v = vec![Ty::Int, Ty::BigInt, Ty::Double, Ty::Text];
        for (t, a) in [(Ty::Bool, "ty.bool"), (Ty::UInt, "ty.uint"), (Ty::BigUInt, "ty.biguint"), (Ty::Float, "ty.float")] {
            if self.lang.allows(a) {
                v.push(t);
            }
        }
        v
    }

    pub fn table(&mut self, name: &str, ncols: usize) -> Table {
        let tys = self.col_types();
        let mut cols = vec![Col { name: "id".into(), ty: Ty::BigInt, not_null: false, default: None }];
        for i in 0..ncols {
            let ty = *self.r.pick(&tys);
            let not_null = self.lang.allows("schema.not_null") && self.r.chance(1, 6);
            let default = if self.lang.allows("schema.default") && self.r.chance(1, 6) { Some(self.value(ty, false)) } else { None };
            cols.push(Col { name: format!("c{}", i), ty, not_null, default });
        }
        let mut uniques = vec![];
        if self.lang.allows("schema.unique") && self.r.chance(1, 2) {
            uniques.push(vec![0]);
        }
        Table { name: name.into(), cols, uniques, rows: vec![] }
    }

    pub fn value(&mut self, ty: Ty, nullable: bool) -> V {
        if nullable && self.r.chance(1, 6) {
            return V::Null;
        }
        match ty {
            Ty::Int | Ty::BigInt => V::I(self.r.range(-3, 12) as i128),
            Ty::UInt | Ty::BigUInt => V::I(self.r.range(0, 12) as i128),
            Ty::Double => V::F(self.r.range(-6, 20) as f64 + *self.r.pick(&[0.5, 0.25, 0.75])),
            Ty::Float => V::F(self.r.range(-6, 20) as f64 + *self.r.pick(&[0.5, 0.25])),
            Ty::Text => V::T(self.r.pick(TEXT_VOCAB).to_string()),
            Ty::Bool => V::Bool(self.r.chance(1, 2)),
        }
    }

    /// Rows for a table: unique ids 1..=n, values from small domains (duplicates and NULLs are the norm).
    pub fn population(&mut self, t: &Table, n: usize) -> Vec<Vec<V>> {
        let mut rows = vec![];
        for i in 0..n {
            let mut r = vec![V::I(i as i128 + 1)];
            for c in &t.cols[1..] {
                let v = self.value(c.ty, !c.not_null);
                r.push(v);
            }
            rows.push(r);
        }
        rows
    }

    // ----------------------------------------------------------------- expressions
    fn cols_of(&mut self, scope: &[ScopeCol], pred: impl Fn(Ty) -> bool) -> Vec<ScopeCol> {
        scope.iter().filter(|c| pred(c.ty)).cloned().collect()
    }

    fn colref(c: &ScopeCol) -> Expr {
        Expr::Col(c.qual.clone(), c.name.clone())
    }

    pub fn int_expr(&mut self, scope: &[ScopeCol], depth: u32) -> Expr {
        let cols = self.cols_of(scope, |t| matches!(t, Ty::Int | Ty::BigInt));
        let leaf = depth == 0 || self.r.chance(2, 5);
        if leaf {
            if !cols.is_empty() && self.r.chance(2, 3) {
                return Self::colref(self.r.pick(&cols));
            }
            return Expr::Lit(V::I(self.r.range(-3, 12) as i128));
        }
        let mut ops = vec![];
        for (o, a) in [(Op::Add, "op.add"), (Op::Sub, "op.sub"), (Op::Mul, "op.mul"), (Op::Div, "op.div"), (Op::Mod, "op.mod")] {
            if self.lang.allows(a) {
                ops.push(o);
            }
        }
        if ops.is_empty() {
            return Expr::Lit(V::I(self.r.range(-3, 12) as i128));
        }
        if self.lang.allows("op.neg") && self.r.chance(1, 10) {
            let inner = self.int_expr(scope, depth - 1);
            if !matches!(inner, Expr::Lit(_)) {
                return Expr::Neg(Box::new(inner));
            }
        }
        let op = *self.r.pick(&ops);
        let l = self.int_expr(scope, depth - 1);
        let r = if matches!(op, Op::Div | Op::Mod) {
            // never a zero divisor in this check (division by zero is C16's business)
            Expr::Lit(V::I(*self.r.pick(&[1, 2, 3, 5, 7]) as i128))
        } else {
            self.int_expr(scope, depth - 1)
        };
        bin(op, l, r)
    }

    pub fn num_expr(&mut self, scope: &[ScopeCol], depth: u32) -> Expr {
        let dcols = self.cols_of(scope, |t| t == Ty::Double);
        if self.lang.allows("ty.double_expr") && self.r.chance(1, 3) {
            let leaf: Expr = if !dcols.is_empty() && self.r.chance(2, 3) {
                Self::colref(self.r.pick(&dcols))
            } else {
                Expr::Lit(V::F(self.r.range(-4, 9) as f64 + 0.5))
            };
            if depth > 0 && self.r.chance(1, 2) {
                let mut ops = vec![];
                // no multiplication here: x * 0 yields -0.0 for negative x, and -0.0 vs 0.0 is C19's business
                for (o, a) in [(Op::Add, "op.add"), (Op::Sub, "op.sub")] {
                    if self.lang.allows(a) {
                        ops.push(o);
                    }
                }
                if !ops.is_empty() {
                    let op = *self.r.pick(&ops);
                    let other = self.int_expr(scope, depth - 1);
                    return if self.r.chance(1, 2) { bin(op, leaf, other) } else { bin(op, other, leaf) };
                }
            }
            return leaf;
        }
        self.int_expr(scope, depth)
    }

    pub fn text_expr(&mut self, scope: &[ScopeCol], depth: u32) -> Expr {
        let cols = self.cols_of(scope, |t| t == Ty::Text);
        if depth > 0 && self.lang.allows("op.concat") && self.r.chance(1, 5) {
            let l = self.text_expr(scope, depth - 1);
            let r = self.text_expr(scope, depth - 1);
            return bin(Op::Concat, l, r);
        }
        if !cols.is_empty() && self.r.chance(2, 3) {
            return Self::colref(self.r.pick(&cols));
        }
        Expr::Lit(V::T(self.r.pick(TEXT_VOCAB).to_string()))
    }

    fn cmp_op(&mut self) -> Op {
        let mut ops = vec![];
        for (o, a) in [(Op::Eq, "op.eq"), (Op::Ne, "op.ne"), (Op::Lt, "op.lt"), (Op::Le, "op.le"), (Op::Gt, "op.gt"), (Op::Ge, "op.ge")] {
            if self.lang.allows(a) {
                ops.push(o);
            }
        }
        if ops.is_empty() { Op::Eq } else { *self.r.pick(&ops) }
    }

    /// A boolean predicate.
    pub fn pred(&mut self, scope: &[ScopeCol], depth: u32) -> Expr {
        if depth > 0 {
            let k = self.r.below(10);
            if k < 3 && self.lang.allows("op.and") {
                let l = self.pred(scope, depth - 1);
                let r = self.pred(scope, depth - 1);
                return bin(Op::And, l, r);
            }
            if k < 6 && self.lang.allows("op.or") {
                let l = self.pred(scope, depth - 1);
                let r = self.pred(scope, depth - 1);
                return bin(Op::Or, l, r);
            }
            if k < 7 && self.lang.allows("op.not") {
                let e = self.pred(scope, depth - 1);
                let special = matches!(e, Expr::Between(..) | Expr::In(..) | Expr::IsNull(..) | Expr::Like(..));
                if !special || self.lang.allows("op.not_over_special") {
                    return Expr::Not(Box::new(e));
                }
                return e;
            }
        }
        // atom
        let has_text = scope.iter().any(|c| c.ty == Ty::Text);
        let mut kinds: Vec<&str> = vec!["cmp", "cmp", "cmp"];
        if has_text {
            kinds.push("tcmp");
            if self.lang.allows("op.like") {
                kinds.push("like");
            }
            if self.lang.allows("op.not_like") {
                kinds.push("nlike");
            }
        }
        for (k, a) in [
            ("isnull", "op.is_null"),
            ("isnotnull", "op.is_not_null"),
            ("between", "op.between"),
            ("nbetween", "op.not_between"),
            ("in", "op.in"),
            ("nin", "op.not_in"),
        ] {
            if self.lang.allows(a) {
                kinds.push(k);
            }
        }
        let has_bool = scope.iter().any(|c| c.ty == Ty::Bool);
        if has_bool {
            kinds.push("boolcol");
        }
        let k = *self.r.pick(&kinds);
        let d = depth.min(2);
        match k {
            "cmp" => {
                let op = self.cmp_op();
                let l = self.num_expr(scope, d);
                let r = self.num_expr(scope, d.saturating_sub(1));
                bin(op, l, r)
            }
            "tcmp" => {
                let op = self.cmp_op();
                let l = self.text_expr(scope, d);
                let r = self.text_expr(scope, 0);
                bin(op, l, r)
            }
            "like" | "nlike" => {
                let e = self.text_expr(scope, 0);
                Expr::Like(Box::new(e), self.r.pick(LIKE_PATS).to_string(), k == "nlike")
            }
            "isnull" | "isnotnull" => {
                let c = self.r.pick(scope).clone();
                Expr::IsNull(Box::new(Self::colref(&c)), k == "isnotnull")
            }
            "between" | "nbetween" => {
                let e = self.int_expr(scope, d.min(1));
                let lo = self.r.range(-3, 8);
                let hi = lo + self.r.range(0, 6);
                Expr::Between(Box::new(e), Box::new(lit_i(lo)), Box::new(lit_i(hi)), k == "nbetween")
            }
            "in" | "nin" => {
                let e = self.int_expr(scope, 0);
                let n = self.r.range(1, 4);
                let mut list: Vec<Expr> = (0..n).map(|_| lit_i(self.r.range(-3, 12))).collect();
                if self.lang.allows("in.null_item") && self.r.chance(1, 8) {
                    list.push(Expr::Lit(V::Null));
                }
                Expr::In(Box::new(e), list, k == "nin")
            }
            "boolcol" => {
                let cols = self.cols_of(scope, |t| t == Ty::Bool);
                Self::colref(self.r.pick(&cols))
            }
            _ => unreachable!(),
        }
    }

    // ----------------------------------------------------------------- queries
    pub fn scope_of(t: &Table, qual: Option<&str>) -> Vec<ScopeCol> {
        t.cols.iter().map(|c| ScopeCol { qual: qual.map(|q| q.to_string()), name: c.name.clone(), ty: c.ty }).collect()
    }

    pub fn select(&mut self, st: &State) -> Select {
        let tables: Vec<&Table> = st.tables.values().collect();
        let mut s = Select::default();
        let mut nfrom = if tables.len() >= 1 && self.lang.allows("join.any") { *self.r.pick(&[1, 2, 2, 2, 3]) } else { 1 };
        if nfrom == 3 && !self.lang.allows("join.three_tables") {
            nfrom = 2;
        }
        let mut scope: Vec<ScopeCol> = vec![];
        let aliases = ["a", "b", "c"];
        for i in 0..nfrom {
            let t = *self.r.pick(&tables);
            if !self.lang.allows("join.self") && s.from.iter().any(|f| f.table == t.name) {
                // pick a different table if there is one
                if let Some(t2) = tables.iter().find(|x| !s.from.iter().any(|f| f.table == x.name)) {
                    let q = aliases[i];
                    let sc = Self::scope_of(t2, Some(q));
                    self.push_from(&mut s, t2, q, &scope, &sc, i);
                    scope.extend(sc);
                    continue;
                } else {
                    break;
                }
            }
            let q = aliases[i];
            let sc = Self::scope_of(t, Some(q));
            self.push_from(&mut s, t, q, &scope, &sc, i);
            scope.extend(sc);
        }
        if s.from.len() == 1 && self.r.chance(1, 2) {
            // unqualified single table
            s.from[0].alias = None;
            for c in scope.iter_mut() {
                c.qual = None;
            }
        }
        let where_ok = s.from.len() == 1 || self.lang.allows("join.where");
        if where_ok && self.r.chance(3, 5) {
            s.wher = Some(self.pred(&scope, 2));
        }
        let agg_ok = self.lang.allows("agg.any");
        if agg_ok && self.r.chance(1, 4) {
            // aggregate query, optional GROUP BY on one column
            let group = if self.lang.allows("sel.group_by") && self.r.chance(1, 2) { Some(self.r.pick(&scope).clone()) } else { None };
            if let Some(g) = &group {
                s.group_by.push(Self::colref(g));
                s.items.push(Item::Expr(Self::colref(g)));
            }
            let n = self.r.range(1, 3);
            for _ in 0..n {
                let mut aggs = vec![];
                for (a, at) in [
                    (Agg::CountStar, "agg.count_star"),
                    (Agg::Count, "agg.count"),
                    (Agg::CountDistinct, "agg.count_distinct"),
                    (Agg::Sum, "agg.sum"),
                    (Agg::Min, "agg.min"),
                    (Agg::Max, "agg.max"),
                    (Agg::Avg, "agg.avg"),
                ] {
                    if self.lang.allows(at) {
                        aggs.push(a);
                    }
                }
                if aggs.is_empty() {
                    aggs.push(Agg::CountStar);
                }
                let a = *self.r.pick(&aggs);
                let arg = match a {
                    Agg::CountStar => None,
                    Agg::Sum | Agg::Avg => {
                        let nc = self.cols_of(&scope, |t| t.is_num());
                        if nc.is_empty() { Some(lit_i(1)) } else { Some(Self::colref(self.r.pick(&nc))) }
                    }
                    _ => Some(Self::colref(&self.r.pick(&scope).clone())),
                };
                s.items.push(Item::Agg(a, arg));
            }
            if group.is_some() && self.lang.allows("sel.order_by.group") && self.r.chance(1, 3) {
                s.order_by.push((0, self.r.chance(1, 2)));
            }
            return s;
        }
        // plain projection
        if self.lang.allows("sel.star") && self.r.chance(1, 5) {
            s.items.push(Item::Star);
        } else {
            let n = self.r.range(1, 4);
            for _ in 0..n {
                let k = self.r.below(10);
                let e = if k < 6 {
                    Self::colref(&self.r.pick(&scope).clone())
                } else if k < 8 {
                    self.num_expr(&scope, 2)
                } else if k < 9 && self.lang.allows("sel.pred_item") {
                    self.pred(&scope, 1)
                } else {
                    self.text_expr(&scope, 1)
                };
                s.items.push(Item::Expr(e));
            }
        }
        if self.lang.allows("sel.distinct") && self.r.chance(1, 6) {
            s.distinct = true;
        }
        let star = matches!(s.items[0], Item::Star);
        if !star && self.lang.allows("sel.order_by") && self.r.chance(2, 5) {
            let n = self.r.range(1, s.items.len().min(2) as i64) as usize;
            let mut idx: Vec<usize> = (0..s.items.len()).collect();
            self.r.shuffle(&mut idx);
            for i in idx.into_iter().take(n) {
                if !self.lang.allows("sel.order_by_expr") && !matches!(s.items[i], Item::Expr(Expr::Col(..))) {
                    continue;
                }
                let desc = self.lang.allows("sel.order_desc") && self.r.chance(1, 2);
                s.order_by.push((i, desc));
            }
        }
        if self.lang.allows("sel.limit") && self.r.chance(1, 4) {
            s.limit = Some(self.r.below(6));
            if self.lang.allows("sel.offset") && self.r.chance(1, 2) {
                s.offset = Some(self.r.below(4));
            }
        }
        s
    }

    fn push_from(&mut self, s: &mut Select, t: &Table, q: &str, left: &[ScopeCol], right: &[ScopeCol], i: usize) {
        if i == 0 {
            s.from.push(FromItem { table: t.name.clone(), alias: Some(q.into()), join: JoinKind::Inner, on: None });
            return;
        }
        let mut kinds = vec![];
        for (k, a) in [
            (JoinKind::Inner, "join.inner"),
            (JoinKind::Left, "join.left"),
            (JoinKind::Right, "join.right"),
            (JoinKind::Full, "join.full"),
            (JoinKind::Cross, "join.cross"),
            (JoinKind::Comma, "join.comma"),
        ] {
            if self.lang.allows(a) {
                kinds.push(k);
            }
        }
        if kinds.is_empty() {
            kinds.push(JoinKind::Inner);
        }
        let k = *self.r.pick(&kinds);
        let on = if matches!(k, JoinKind::Cross | JoinKind::Comma) {
            None
        } else {
            // equi-join on integer columns most of the time, sometimes a general predicate
            let li: Vec<ScopeCol> = left.iter().filter(|c| matches!(c.ty, Ty::Int | Ty::BigInt)).cloned().collect();
            let ri: Vec<ScopeCol> = right.iter().filter(|c| matches!(c.ty, Ty::Int | Ty::BigInt)).cloned().collect();
            let eq = if self.lang.allows("join.on_equi_cols") {
                bin(Op::Eq, Self::colref(self.r.pick(&li)), Self::colref(self.r.pick(&ri)))
            } else {
                // same meaning, but not recognised as a plain equi-join (nested-loop plan)
                let k = self.r.below(3);
                let l = Self::colref(self.r.pick(&li));
                let r = Self::colref(self.r.pick(&ri));
                match k {
                    0 => bin(Op::Eq, l, bin(Op::Add, r, lit_i(0))),
                    1 => bin(Op::Lt, l, r),
                    _ => bin(Op::Ge, l, r),
                }
            };
            if self.lang.allows("join.on_general") && self.r.chance(1, 4) {
                let mut both = left.to_vec();
                both.extend(right.iter().cloned());
                Some(self.pred(&both, 1))
            } else if self.lang.allows("join.on_extra") && self.r.chance(1, 4) {
                let extra = self.pred(right, 0);
                Some(bin(Op::And, eq, extra))
            } else {
                Some(eq)
            }
        };
        s.from.push(FromItem { table: t.name.clone(), alias: Some(q.into()), join: k, on });
    }

    // ----------------------------------------------------------------- DML
    pub fn insert(&mut self, t: &Table, next_id: &mut i128) -> Stmt {
        let nrows = if self.lang.allows("ins.multi_row") && self.r.chance(1, 3) { self.r.range(2, 4) } else { 1 };
        let use_cols = self.lang.allows("ins.col_list") && self.r.chance(1, 4);
        let mut idx: Vec<usize> = (0..t.cols.len()).collect();
        if use_cols {
            // id always present; drop some other columns (only nullable ones or ones with a default)
            idx.retain(|i| *i == 0 || t.cols[*i].not_null && t.cols[*i].default.is_none() || self.r.chance(2, 3));
            if self.r.chance(1, 2) {
                self.r.shuffle(&mut idx[1..]);
            }
        }
        let mut rows = vec![];
        for _ in 0..nrows {
            let mut r = vec![];
            for i in &idx {
                if *i == 0 {
                    r.push(Expr::Lit(V::I(*next_id)));
                    *next_id += 1;
                } else {
                    let c = &t.cols[*i];
                    r.push(Expr::Lit(self.value(c.ty, !c.not_null)));
                }
            }
            rows.push(r);
        }
        Stmt::Insert(t.name.clone(), if use_cols { Some(idx.iter().map(|i| t.cols[*i].name.clone()).collect()) } else { None }, rows)
    }

    pub fn update(&mut self, t: &Table) -> Stmt {
        let scope = Self::scope_of(t, None);
        let n = self.r.range(1, 2.min(t.cols.len() as i64 - 1).max(1));
        let mut sets = vec![];
        let mut cand: Vec<usize> = (1..t.cols.len()).collect();
        self.r.shuffle(&mut cand);
        for i in cand.into_iter().take(n as usize) {
            let c = &t.cols[i];
            let e = match c.ty {
                Ty::Int | Ty::BigInt => {
                    if self.lang.allows("upd.expr") && self.r.chance(1, 2) { self.int_expr(&scope, 1) } else { Expr::Lit(self.value(c.ty, !c.not_null)) }
                }
                _ => Expr::Lit(self.value(c.ty, !c.not_null)),
            };
            sets.push((c.name.clone(), e));
        }
        let w = if self.r.chance(5, 6) { Some(self.pred(&scope, 1)) } else { None };
        Stmt::Update(t.name.clone(), sets, w)
    }

    pub fn delete(&mut self, t: &Table) -> Stmt {
        let scope = Self::scope_of(t, None);
        let w = if self.r.chance(9, 10) { Some(self.pred(&scope, 1)) } else { None };
        Stmt::Delete(t.name.clone(), w)
    }
}

pub fn populate_stmts(t: &Table, rows: &[Vec<V>], chunk: usize) -> Vec<Stmt> {
    rows.chunks(chunk.max(1)).map(|ch| Stmt::Insert(t.name.clone(), None, ch.iter().map(|r| r.iter().map(|v| Expr::Lit(v.clone())).collect()).collect())).collect()
}
