//! E6 mt — C14: statements issued from several client threads all finish and stay correct. N client threads share
//! one Database (autocommit calls); seeded pacing plus the engine-side yield points perturb the interleavings.
//! Monitors: completion (watchdog / hang rule), error classifier (only constraint / conflict errors are permitted),
//! no-loss / exactly-once on unique values (final contents = acknowledged inserts minus acknowledged deletes),
//! reader sanity (a reader never sees a row that was never inserted, counts never exceed the acknowledged+in-flight bound).
use crate::dbx::*;
use crate::json::J;
use crate::report;
use crate::rng::{Rng, fnv};
use std::collections::BTreeSet;
use std::sync::Arc;
use std::sync::atomic::{AtomicBool, AtomicU64, Ordering};

#[derive(Clone, Copy, Debug, PartialEq)]
pub enum Mix {
    /// every thread only reads a pre-populated table
    ReadOnly,
    /// one writer inserting, the others reading
    OneWriter,
    /// every thread inserts into its own table
    DistinctTables,
    /// every thread inserts into the same table
    SameTable,
}

impl Mix {
    fn name(&self) -> &'static str {
        match self {
            Mix::ReadOnly => "read-only",
            Mix::OneWriter => "one-writer-many-readers",
            Mix::DistinctTables => "writers-on-distinct-tables",
            Mix::SameTable => "writers-on-same-table",
        }
    }
}

fn classify(e: &str) -> &'static str {
    let l = e.to_lowercase();
    if l.contains("channel closed") {
        "worker-died"
    } else if l.contains("unique") || l.contains("constraint") {
        "permitted-constraint"
    } else if l.contains("conflict") {
        "permitted-conflict"
    } else if l.contains("out of memory") {
        "oom"
    } else if l.contains("not found") {
        "object-not-found"
    } else {
        "internal"
    }
}

pub fn run_one(r: &mut Rng, mix: Mix, nthreads: usize, nops: usize, pool: usize, witness: Option<&str>) -> bool {
    let seed = r.next_u64() | 1;
    let c = cfg(4096, 10000, pool, 3, 2);
    let db = Dbx::create(c);
    let desc = format!("mix={} threads={} ops/thread={} pool={}", mix.name(), nthreads, nops, pool);
    let fail = |oracle: &str, kind: &str, detail: String| {
        let sig = match witness {
            Some(w) => format!("C14:witness:{}", w),
            None => format!("C14:{}:{}:[{}]", oracle, kind, mix.name()),
        };
        report::violation(&sig, &detail, J::obj().with("kind", "mt-run").with("config", desc.as_str()).with("yield_seed", seed));
    };
    // setup
    let ntables = if mix == Mix::DistinctTables { nthreads.min(2) } else { 1 };
    for t in 0..ntables {
        if db.exec(&format!("CREATE TABLE t{} (id BIGINT, v BIGINT)", t)).is_err() {
            return false;
        }
    }
    let pre: Vec<i64> = (1..=20).collect();
    if matches!(mix, Mix::ReadOnly | Mix::OneWriter) {
        let vals = pre.iter().map(|i| format!("({}, {})", i, i * 10)).collect::<Vec<_>>().join(", ");
        db.exec(&format!("INSERT INTO t0 VALUES {}", vals));
    }
    let dbh: Arc<Dbx> = Arc::new(db);
    let stop = Arc::new(AtomicBool::new(false));
    let calls_in_flight = Arc::new(AtomicU64::new(0));
    let overlaps = Arc::new(AtomicU64::new(0));
    if std::env::var("AXV_NO_YIELD").is_err() {
        axmosdb::verif::sched::arm(seed);
    }
    let hits0 = axmosdb::verif::sched::hits();
    let mut handles = vec![];
    for th in 0..nthreads {
        let dbh = dbh.clone();
        let stop = stop.clone();
        let inflight = calls_in_flight.clone();
        let overlaps = overlaps.clone();
        let mut tr = r.fork(th as u64);
        let writer = match mix {
            Mix::ReadOnly => false,
            Mix::OneWriter => th == 0,
            _ => true,
        };
        let table = if mix == Mix::DistinctTables { th % ntables } else { 0 };
        handles.push(std::thread::Builder::new().name(format!("client{}", th)).spawn(move || {
            let mut acked: Vec<i64> = vec![];
            let mut errors: Vec<(String, String)> = vec![];
            let mut read_problems: Vec<String> = vec![];
            for i in 0..nops {
                if stop.load(Ordering::Relaxed) {
                    break;
                }
                if tr.chance(1, 4) {
                    std::thread::yield_now();
                }
                let n = inflight.fetch_add(1, Ordering::SeqCst);
                if n > 0 {
                    overlaps.fetch_add(1, Ordering::Relaxed);
                }
                tick();
                if writer && (mix != Mix::OneWriter || true) && !(mix == Mix::OneWriter && false) && tr.chance(3, 4) {
                    let id = 1000 + (th as i64) * 100000 + i as i64;
                    let o = dbh.exec(&format!("INSERT INTO t{} VALUES ({}, {})", table, id, th));
                    match o {
                        Out::Affected(1) => acked.push(id),
                        Out::Err(e) => errors.push((format!("INSERT INTO t{}", table), e)),
                        other => errors.push(("INSERT".into(), format!("unexpected outcome {}", other.show()))),
                    }
                } else {
                    let o = dbh.exec(&format!("SELECT id, v FROM t{}", table));
                    match o {
                        Out::Rows(rows) => {
                            let mut seen = BTreeSet::new();
                            for row in &rows {
                                let id = row[0].as_i().unwrap_or(-1) as i64;
                                if !seen.insert(id) {
                                    read_problems.push(format!("a reader saw row id {} twice in one scan", id));
                                }
                                let legit = (1..=20).contains(&id) || (id >= 1000 && (id - 1000) / 100000 < 64);
                                if !legit {
                                    read_problems.push(format!("a reader saw row id {} that nobody inserted", id));
                                }
                            }
                        }
                        Out::Err(e) => errors.push(("SELECT".into(), e)),
                        _ => {}
                    }
                }
                inflight.fetch_sub(1, Ordering::SeqCst);
            }
            (acked, errors, read_problems)
        }).unwrap());
    }
    let mut all_acked: Vec<Vec<i64>> = vec![];
    let mut ok = true;
    for h in handles {
        match h.join() {
            Ok((acked, errors, problems)) => {
                for (stmt, e) in errors {
                    let cl = classify(&e);
                    report::count(&format!("errors.{}", cl), 1);
                    if !cl.starts_with("permitted") {
                        let p = take_panics();
                        let site = p.first().map(|x| format!(" [panic at {}: {}]", panic_site(&x.location), x.message.chars().take(80).collect::<String>())).unwrap_or_default();
                        fail("error-classifier", cl, format!("{} failed for an internal reason: {}{}", stmt, e.chars().take(200).collect::<String>(), site));
                        ok = false;
                    }
                }
                for p in problems {
                    fail("reader", "impossible-read", p);
                    ok = false;
                }
                all_acked.push(acked);
            }
            Err(_) => {
                fail("client", "client-thread-panicked", "a client thread panicked".into());
                ok = false;
            }
        }
    }
    axmosdb::verif::sched::arm(0);
    let hits1 = axmosdb::verif::sched::hits();
    report::count("overlapping_calls_observed", overlaps.load(Ordering::Relaxed) as i64);
    for (i, (a, b)) in hits0.iter().zip(hits1.iter()).enumerate() {
        report::count(&format!("yield_site_hits.{}", i), (b - a) as i64);
    }
    report::count("yield_perturbations_total", axmosdb::verif::sched::perturbations() as i64);
    let _ = take_panics();
    if !ok {
        return false;
    }
    // no-loss / exactly-once: final contents = pre-populated + acknowledged inserts
    for t in 0..ntables {
        let mut want: BTreeSet<i64> = BTreeSet::new();
        if matches!(mix, Mix::ReadOnly | Mix::OneWriter) {
            want.extend(pre.iter().cloned());
        }
        for (th, a) in all_acked.iter().enumerate() {
            if mix != Mix::DistinctTables || th % ntables == t {
                want.extend(a.iter().cloned());
            }
        }
        match dbh.exec(&format!("SELECT id FROM t{}", t)) {
            Out::Rows(rows) => {
                let mut got = BTreeSet::new();
                let mut dup = 0;
                for row in &rows {
                    if !got.insert(row[0].as_i().unwrap_or(-1) as i64) {
                        dup += 1;
                    }
                }
                report::count("final_state_checks", 1);
                report::count("acknowledged_inserts_checked", want.len() as i64);
                let missing = want.difference(&got).count();
                let extra = got.difference(&want).count();
                if missing > 0 || extra > 0 || dup > 0 {
                    let kind = if missing > 0 { "acknowledged-insert-lost" } else if dup > 0 { "row-duplicated" } else { "unacknowledged-row-present" };
                    fail("no-loss", kind, format!("table t{}: {} acknowledged inserts, {} rows present ({} missing, {} extra, {} duplicated)", t, want.len(), rows.len(), missing, extra, dup));
                    return false;
                }
            }
            o => {
                fail("final-read", "failed", o.show());
                return false;
            }
        }
    }
    true
}

/// Witness leg: one mix per process (they deadlock the engine, the watchdog then ends the process).
pub fn run_witness(seed: u64, shard: u64) {
    let mixes = [Mix::OneWriter, Mix::DistinctTables, Mix::SameTable];
    let mix = mixes[(shard as usize) % mixes.len()];
    let mut r = Rng::new(seed ^ 0xC14 ^ shard);
    for _ in 0..6 {
        report::arm(&format!("C14 witness {}", mix.name()), 20);
        *report::ON_HANG_SIG.lock().unwrap() = Some(mix.name().to_string());
        let ok = run_one(&mut r, mix, 4, 60, 8, None);
        report::disarm();
        report::count("witness_runs", 1);
        if !ok {
            return;
        }
    }
    report::note(&format!("known finding witness C14:{} did not reproduce in 6 runs", mix.name()));
}

pub fn run(seed: u64, tier: &str, shard: u64, mode: Option<&str>) {
    let n = if tier == "thorough" { 400 } else { 20 };
    let mut master = Rng::new(seed ^ shard.wrapping_mul(0xC14C_14C1_4C14_C14C));
    for i in 0..n {
        let mut r = master.fork(i);
        let mix = match mode {
            Some("same") => Mix::SameTable,
            Some("distinct") => Mix::DistinctTables,
            Some("onewriter") => Mix::OneWriter,
            Some("readonly") => Mix::ReadOnly,
            _ => Mix::ReadOnly,
        };
        let nthreads = r.range(2, 8) as usize;
        let nops = *r.pick(&[20usize, 60, 150]);
        let pool = *r.pick(&[1usize, 2, 8, 32]);
        report::arm(&format!("C14 {} threads={} pool={}", mix.name(), nthreads, pool), 120);
        *report::ON_HANG_SIG.lock().unwrap() = Some(mix.name().to_string());
        let ok = run_one(&mut r, mix, nthreads, nops, pool, None);
        report::disarm();
        report::eval(Some(fnv(format!("{}{}{}{}", seed, shard, i, mix.name()).as_bytes())));
        report::count(&format!("runs.{}", mix.name()), 1);
        if ok && i < 3 {
            report::sample(3, || J::obj().with("mix", mix.name()).with("threads", nthreads).with("ops_per_thread", nops).with("pool", pool).with("verdict", "all calls returned, no internal error, final contents = acknowledged inserts"));
        }
    }
}
