//! C15 — DDL histories: CREATE TABLE (autocommit, in committed and rolled-back transactions), DROP TABLE and name
//! reuse, ALTER TABLE DROP COLUMN, CREATE UNIQUE INDEX on populated tables, interleaved with DML on the same and on
//! bystander tables, closed by a reopen. Oracle: the Exec monitors of E2 (statement outcome, committed state of
//! every table after every step) plus name-resolution probes.
use crate::c05::clean_lang;
use crate::dbx::*;
use crate::hist::*;
use crate::json::J;
use crate::model::*;
use crate::report;
use crate::rng::{Rng, fnv};
use crate::sqlgen::*;

const NAMES: &[&str] = &["ta", "tb", "tc"];

fn new_table(g: &mut Gen, name: &str) -> Table {
    let nc = g.r.range(2, 4) as usize;
    let mut t = g.table(name, nc);
    t.uniques.clear();
    for c in t.cols.iter_mut() {
        c.default = None;
        c.not_null = false;
    }
    t
}

fn ins(g: &mut Gen, t: &Table, next_id: &mut i128) -> Stmt {
    let n = g.r.range(1, 3);
    let mut rows = vec![];
    for _ in 0..n {
        let mut r = vec![Expr::Lit(V::I(*next_id))];
        *next_id += 1;
        for c in &t.cols[1..] {
            r.push(Expr::Lit(g.value(c.ty, true)));
        }
        rows.push(r);
    }
    Stmt::Insert(t.name.clone(), None, rows)
}

/// mode 0: creates (autocommit / committed txn / rolled-back txn), DML, reopen, name probes — no DROP, no index;
/// mode 1: creates (autocommit / committed txn), DROP TABLE + name reuse, DROP COLUMN on never-populated tables — no rollback, no index;
/// mode 2: one table, CREATE UNIQUE INDEX on populated data, DML, reopen.
/// (the combinations are open findings: free-list / object-id damage, see corpus/C15 and C11)
pub fn gen_history(r: &mut Rng, nsteps: usize, mode: u32) -> Vec<Step> {
    let lang = clean_lang();
    let mut g = Gen::new(r, &lang);
    let mut m = State::default();
    let mut steps: Vec<Step> = vec![];
    let mut next_id: i128 = 1;
    let mut sid = 100usize;
    let mut idx_n = 0;
    // CREATE UNIQUE INDEX resolves object ids wrongly once ids were burnt by a rolled-back CREATE, a DROP TABLE or a DROP COLUMN
    // (open findings, witnesses in corpus/C15): it is only generated before any of these happened
    let mut ids_disturbed = false;
    let mut dropped_once = false;
    let mut column_dropped_once = false;
    let mut had_rows: std::collections::BTreeSet<String> = Default::default();
    for _ in 0..nsteps {
        let existing: Vec<String> = m.tables.keys().cloned().collect();
        let mut free: Vec<&str> = NAMES.iter().filter(|n| !m.tables.contains_key(**n)).cloned().collect();
        if mode == 2 && !existing.is_empty() {
            free.clear();
        }
        let k = g.r.below(20);
        if (k < 4 || existing.is_empty()) && !free.is_empty() {
            let name = *g.r.pick(&free);
            let t = new_table(&mut g, name);
            let c = Stmt::Create(t.clone());
            let how = g.r.below(4);
            // at most one rolled-back CREATE per history (open finding: repeated_rolled_back_create)
            let how = if how == 1 && (mode != 0 || ids_disturbed) { 2 } else { how };
            match how {
                0 => {
                    // inside a committed transaction, with a row
                    sid += 1;
                    steps.push(Step::Begin(sid));
                    steps.push(Step::In(sid, c.clone()));
                    let i = ins(&mut g, &t, &mut next_id);
                    steps.push(Step::In(sid, i.clone()));
                    steps.push(Step::Commit(sid));
                    m.apply(&c);
                    m.apply(&i);
                    had_rows.insert(name.to_string());
                }
                1 => {
                    // inside a rolled-back transaction: the name must not exist afterwards
                    sid += 1;
                    steps.push(Step::Begin(sid));
                    steps.push(Step::In(sid, c.clone()));
                    let i = ins(&mut g, &t, &mut next_id);
                    steps.push(Step::In(sid, i));
                    steps.push(Step::Rollback(sid));
                    ids_disturbed = true;
                    steps.push(Step::Raw(format!("SELECT * FROM {}", name), false));
                }
                _ => {
                    steps.push(Step::Auto(c.clone()));
                    m.apply(&c);
                }
            }
            continue;
        }
        if existing.is_empty() {
            continue;
        }
        let tn = g.r.pick(&existing).clone();
        let t = m.tables[&tn].clone();
        if k < 6 && mode == 1 && !dropped_once && std::env::var("AXV_C15_DROP").is_ok() {
            // DROP TABLE is not sampled on the unchanged tree: pages it frees come back from the free list in a wrong state
            // (open findings create_after_two_drops / create_after_drop_and_reopen and C11); it is covered by those witnesses.
            // at most one DROP TABLE per history (open finding create_after_two_drops)
            dropped_once = true;
            let d = Stmt::Drop(tn.clone());
            steps.push(Step::Auto(d.clone()));
            m.apply(&d);
            ids_disturbed = true;
            had_rows.remove(&tn);
            steps.push(Step::Raw(format!("SELECT * FROM {}", tn), false));
        } else if k < 8 && mode == 1 && t.cols.len() > 2 && !had_rows.contains(&tn) && t.uniques.is_empty() && (std::env::var("AXV_C15_DROP").is_ok() || !column_dropped_once) {
            // clean stratum: ONE DROP COLUMN per history, on a table that never held a row (several ALTERs, or a
            // populated table, are open findings covered by witnesses)
            column_dropped_once = true;
            report::count("steps.drop_column_on_empty_table", 1);
            // not sampled either: repeated ALTER TABLE rewrites of the catalog row damage the meta table (witness drop_column_then_inserts)
            // open finding: DROP COLUMN on a populated table leaves the stored rows in the old shape (witness in corpus/C15)
            let cands: Vec<usize> = (1..t.cols.len()).filter(|i| !t.uniques.iter().any(|u| u.contains(i))).collect();
            if cands.is_empty() {
                continue;
            }
            let ci = *g.r.pick(&cands);
            let d = Stmt::DropColumn(tn.clone(), t.cols[ci].name.clone());
            steps.push(Step::Auto(d.clone()));
            m.apply(&d);
            ids_disturbed = true;
        } else if k < 10 && mode == 2 && t.uniques.is_empty() && !ids_disturbed {
            let cands: Vec<usize> = (0..t.cols.len()).filter(|i| matches!(t.cols[*i].ty, Ty::Int | Ty::BigInt | Ty::Text)).collect();
            if cands.is_empty() {
                continue;
            }
            let ci = *g.r.pick(&cands);
            // the engine cannot index NULLs (open finding in C07): only build the index when the column has none
            if t.rows.iter().any(|r| r[ci].is_null()) {
                continue;
            }
            idx_n += 1;
            let d = Stmt::CreateIndex(format!("ix{}", idx_n), tn.clone(), t.cols[ci].name.clone());
            // open finding: a CREATE UNIQUE INDEX refused because of existing duplicates leaves a half-registered index
            let mut probe = m.clone();
            if matches!(probe.apply(&d), MOut::Err(_)) {
                continue;
            }
            steps.push(Step::Auto(d.clone()));
            m.apply(&d);
        } else if k < 17 || k < 10 {
            had_rows.insert(tn.clone());
            // DML that stays inside the clean vocabulary for this table
            if !t.uniques.is_empty() {
                // unique column: single-row inserts with non-NULL, possibly colliding keys
                let ui = t.uniques[0][0];
                let mut row = vec![];
                for (i, c) in t.cols.iter().enumerate() {
                    if i == 0 && ui != 0 {
                        row.push(Expr::Lit(V::I(next_id)));
                    } else if i == ui {
                        row.push(Expr::Lit(if i == 0 { V::I(next_id) } else { g.value(c.ty, false) }));
                    } else {
                        row.push(Expr::Lit(g.value(c.ty, true)));
                    }
                }
                next_id += 1;
                let s = Stmt::Insert(tn.clone(), None, vec![row]);
                m.apply(&s);
                steps.push(Step::Auto(s));
            } else if g.r.chance(2, 3) {
                let s = ins(&mut g, &t, &mut next_id);
                m.apply(&s);
                steps.push(Step::Auto(s));
            } else {
                let s = g.delete(&t);
                m.apply(&s);
                steps.push(Step::Auto(s));
            }
        } else if k < 18 && mode != 1 {
            // (mode 1: open finding create_after_drop_and_reopen — no reopen between DROP and CREATE)
            steps.push(Step::Reopen(0));
        } else {
            // a never-created name must not resolve; an existing one must
            steps.push(Step::Raw("SELECT * FROM never_created".into(), false));
            steps.push(Step::Raw(format!("SELECT * FROM {}", tn), true));
        }
    }
    steps.push(Step::Reopen(0));
    steps
}

pub fn run(seed: u64, tier: &str, shard: u64) {
    let n = if tier == "thorough" { 4000 } else { 300 };
    let mut master = Rng::new(seed ^ shard.wrapping_mul(0x1515_1515_9999_7777) ^ 0xC15);
    let cfgs = [default_cfg()];
    for h in 0..n {
        let mut r = master.fork(h as u64);
        let mode = (h % 3) as u32;
        let steps = gen_history(&mut r, 18, mode);
        report::count(&format!("histories.mode{}", mode), 1);
        report::arm(&format!("C15 history {}", h), 180);
        let (_t, div) = run_history("C15", &steps, default_cfg(), &cfgs);
        report::disarm();
        report::eval(Some(history_hash(&steps)));
        for s in &steps {
            let k = match s {
                Step::Auto(Stmt::Create(_)) => "create_table",
                Step::In(_, Stmt::Create(_)) => "create_table_in_txn",
                Step::Auto(Stmt::Drop(_)) => "drop_table",
                Step::Auto(Stmt::DropColumn(..)) => "drop_column",
                Step::Auto(Stmt::CreateIndex(..)) => "create_unique_index",
                Step::Rollback(_) => "rollback",
                Step::Reopen(_) => "reopen",
                Step::Raw(..) => "name_probe",
                _ => "dml",
            };
            report::count(&format!("steps.{}", k), 1);
        }
        if !div {
            report::sample(3, || J::obj().with("history", J::Arr(steps.iter().map(|s| J::Str(s.show())).collect())).with("verdict", "all oracles agreed"));
        }
        let _ = fnv(b"");
    }
}
