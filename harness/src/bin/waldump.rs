//! development tool: dump what the log reader and the analysis see in a log file
use axmosdb::verif::facade::VWal;
fn main() {
    let p = std::env::args().nth(1).expect("path to axmos.log");
    let ra: usize = std::env::args().nth(2).and_then(|s| s.parse().ok()).unwrap_or(4);
    let mut w = VWal::open(&p).expect("open");
    let recs = w.read_all(ra).expect("read_all");
    let mut kinds = std::collections::BTreeMap::new();
    for r in &recs {
        *kinds.entry(r.kind).or_insert(0usize) += 1;
    }
    println!("records {} kinds {:?} first lsn {:?} last lsn {:?}", recs.len(), kinds, recs.first().map(|r| r.lsn), recs.last().map(|r| r.lsn));
    let mut prev = 0;
    let mut gaps = 0;
    for r in &recs {
        if r.lsn != prev + 1 && prev != 0 {
            gaps += 1;
            if gaps < 6 {
                println!("lsn gap: {} -> {}", prev, r.lsn);
            }
        }
        prev = r.lsn;
    }
    println!("gaps {}", gaps);
    let (redo, undo) = w.analysis().expect("analysis");
    println!("needs_redo {} needs_undo {}", redo.len(), undo.len());
}
