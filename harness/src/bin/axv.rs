//! Worker binary: `axv <check> --seed N --tier quick|thorough --shard i --out file [--atom a]`
use axv::*;

#[cfg(feature = "sysalloc")]
#[global_allocator]
static ALLOC: axv::allocprobe::Counting = axv::allocprobe::Counting;

fn arg(args: &[String], name: &str) -> Option<String> {
    args.iter().position(|a| a == name).and_then(|i| args.get(i + 1).cloned())
}

fn main() {
    let args: Vec<String> = std::env::args().collect();
    let check = args.get(1).cloned().unwrap_or_default();
    let seed: u64 = arg(&args, "--seed").map(|s| s.parse().unwrap()).unwrap_or(1);
    let tier = arg(&args, "--tier").unwrap_or_else(|| "quick".into());
    let shard: u64 = arg(&args, "--shard").map(|s| s.parse().unwrap()).unwrap_or(0);
    let out = arg(&args, "--out").unwrap_or_default();
    let atom = arg(&args, "--atom");
    let nshards: u64 = arg(&args, "--nshards").map(|s| s.parse().unwrap()).unwrap_or(1);
    dbx::install_panic_hook();
    report::init(&check, &tier, seed, shard, &out);
    match check.as_str() {
        "C05" => {
            if shard == 0 && atom.is_none() {
                witness::run_witnesses("C05");
            }
            c05::run(seed, &tier, shard, atom.as_deref())
        }
        "C03" => {
            if shard == 0 {
                witness::run_witnesses("C03");
            }
            let mut p = hist::Profile::base("C03");
            p.bystander = atom.as_deref() != Some("nobystander");
            p.tainting_deletes = atom.as_deref() != Some("notaint");
            hist::run_profile(&p, seed, shard, if tier == "thorough" { 8000 } else { 600 });
        }
        "C07" => {
            if shard == 0 {
                witness::run_witnesses("C07");
            }
            let mut p = hist::Profile::base("C07");
            p.unique_key = true;
            // an idle older session open while keys are deleted and re-inserted (the index entry's delete mark must
            // carry the deleter's id, not something derived from the oldest open transaction)
            p.bystander = atom.as_deref() != Some("nobystander");
            p.rollback = atom.as_deref() == Some("rollback");
            p.batch = atom.as_deref() == Some("batch");
            p.multi_row_unique = atom.as_deref() == Some("multi");
            hist::run_profile(&p, seed, shard, if tier == "thorough" { 8000 } else { 600 });
        }
        "C09" => {
            if shard == 0 {
                witness::run_witnesses("C09");
            }
            let mut p = hist::Profile::base("C09");
            p.flush = true;
            p.reopen = true;
            p.burn = atom.as_deref() != Some("noburn");
            p.bystander = atom.as_deref() != Some("nobystander");
            p.configs = vec![dbx::default_cfg(), dbx::cfg(4096, 64, 2, 3, 2), dbx::cfg(4096, 1000, 16, 4, 3), dbx::cfg(8192, 200, 4, 3, 1)];
            hist::run_profile(&p, seed, shard, if tier == "thorough" { 4000 } else { 300 });
        }
        "C04" => {
            if shard == 0 {
                witness::run_witnesses("C04");
            }
            c04::run(seed, &tier, shard, nshards);
        }
        "C06" => {
            if shard == 0 {
                witness::run_witnesses("C06");
            }
            c06::run(seed, &tier, shard);
        }
        "C16" => c16::run(seed, &tier, shard),
        "C16N" => c16::run_nesting(shard),
        "C19" => c19::run(seed, &tier, shard, nshards),
        "C20" => c20::run(seed, &tier, shard),
        "C20S" => {
            report::init("C20", &tier, seed, shard, &out);
            c20s::run(seed, &tier, shard)
        }
        "C01" | "C02" | "C08" => e1::run(&check, seed, &tier, shard, atom.as_deref()),
        "C10" | "C11" => c10::run(&check, seed, &tier, shard, atom.as_deref()),
        "C10W" => {
            report::init("C10", "witness", seed, shard, &out);
            c10::run("C10", seed, "witness", shard, None)
        }
        "C11W" => {
            report::init("C11", "witness", seed, shard, &out);
            c10::run("C11", seed, "witness", shard, None)
        }
        "C17" => c17::run(seed, &tier, shard),
        "C18" => c18::run(seed, &tier, shard, nshards, atom.as_deref()),
        "C14" => c14::run(seed, &tier, shard, atom.as_deref()),
        "C14W" => {
            report::init("C14", "witness", seed, shard, &out);
            c14::run_witness(seed, shard)
        }
        "C12" => {
            if shard == 0 {
                witness::run_witnesses("C12");
            }
            c12::run(seed, &tier, shard);
        }
        "C15" => {
            if shard == 0 {
                witness::run_witnesses("C15");
            }
            c15::run(seed, &tier, shard);
        }
        "C13" => {
            if shard == 0 {
                witness::run_witnesses("C13");
            }
            let mut p = hist::Profile::base("C13");
            p.vacuum = true;
            p.own_row_updates = atom.as_deref() != Some("noupdates");
            p.reopen = atom.as_deref() == Some("reopen");
            hist::run_profile(&p, seed, shard, if tier == "thorough" { 4000 } else { 300 });
        }
        other => {
            eprintln!("unknown check {}", other);
            std::process::exit(2);
        }
    }
    report::disarm();
    report::write();
    dbx::cleanup_work_root();
}
