//! Worker binary: `axv <check> --seed N --tier quick|thorough --shard i --out file [--atom a]`
use axv::*;

fn arg(args: &[String], name: &str) -> Option<String> {
    args.iter().position(|a| a == name).and_then(|i| args.get(i + 1).cloned())
}

fn main() {
    let args: Vec<String> = std::env::args().collect();
    let check = args.get(1).cloned().unwrap_or_default();
    let seed: u64 = arg(&args, "--seed").map(|s| s.parse().unwrap()).unwrap_or(1);
    let tier = arg(&args, "--tier").unwrap_or_else(|| "quick".into());
    let shard: u64 = arg(&args, "--shard").map(|s| s.parse().unwrap()).unwrap_or(0);
    let out = arg(&args, "--out").unwrap_or_default();
    let atom = arg(&args, "--atom");
    dbx::install_panic_hook();
    report::init(&check, &tier, seed, shard, &out);
    match check.as_str() {
        "C05" => {
            if shard == 0 && atom.is_none() {
                witness::run_witnesses("C05");
            }
            c05::run(seed, &tier, shard, atom.as_deref())
        }
        other => {
            eprintln!("unknown check {}", other);
            std::process::exit(2);
        }
    }
    report::disarm();
    report::write();
    dbx::cleanup_work_root();
}
