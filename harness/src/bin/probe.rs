//! Interactive script runner used while developing monitors (not a registered check). See script.rs.
use axv::dbx::*;
use axv::script::*;
use std::io::BufRead;

fn main() {
    install_panic_hook();
    let mut runner: Option<Runner> = None;
    for line in std::io::stdin().lock().lines() {
        let line = line.unwrap();
        let line = line.trim().to_string();
        if line.is_empty() || line.starts_with("--") {
            continue;
        }
        if line.starts_with("@cfg") {
            runner = Some(Runner::new(parse_cfg(&line)));
            continue;
        }
        let r = runner.get_or_insert_with(|| Runner::new(default_cfg()));
        let out = r.step(&line);
        println!("{} => {}", line, out);
        for p in take_panics() {
            println!("   !! PANIC {} @ {} : {}", p.thread, p.location, p.message);
        }
    }
}
