//! Reference relational model: an independent evaluator over the generator's AST (never over SQL text).
//! Three-valued logic, SQL comparison semantics, joins, grouping, ordering, DML with constraints.
use crate::dbx::{RowV, V};
use std::collections::BTreeMap;

#[derive(Clone, Copy, Debug, PartialEq, Eq, Hash, PartialOrd, Ord)]
pub enum Ty {
    Int,
    BigInt,
    UInt,
    BigUInt,
    Float,
    Double,
    Text,
    Bool,
}

impl Ty {
    pub fn sql(&self) -> &'static str {
        match self {
            Ty::Int => "INT",
            Ty::BigInt => "BIGINT",
            Ty::UInt => "UINT",
            Ty::BigUInt => "BIGUINT",
            Ty::Float => "FLOAT",
            Ty::Double => "DOUBLE",
            Ty::Text => "TEXT",
            Ty::Bool => "BOOLEAN",
        }
    }
    pub fn is_int(&self) -> bool {
        matches!(self, Ty::Int | Ty::BigInt | Ty::UInt | Ty::BigUInt)
    }
    pub fn is_num(&self) -> bool {
        !matches!(self, Ty::Text | Ty::Bool)
    }
    pub fn int_range(&self) -> Option<(i128, i128)> {
        match self {
            Ty::Int => Some((i32::MIN as i128, i32::MAX as i128)),
            Ty::BigInt => Some((i64::MIN as i128, i64::MAX as i128)),
            Ty::UInt => Some((0, u32::MAX as i128)),
            Ty::BigUInt => Some((0, u64::MAX as i128)),
            _ => None,
        }
    }
}

#[derive(Clone, Debug, PartialEq)]
pub struct Col {
    pub name: String,
    pub ty: Ty,
    pub not_null: bool,
    pub default: Option<V>,
}

#[derive(Clone, Debug, PartialEq)]
pub struct Table {
    pub name: String,
    pub cols: Vec<Col>,
    /// column-index sets that must be unique (NULLs excepted)
    pub uniques: Vec<Vec<usize>>,
    pub rows: Vec<RowV>,
}

impl Table {
    pub fn col_idx(&self, name: &str) -> Option<usize> {
        self.cols.iter().position(|c| c.name == name)
    }
    pub fn create_sql(&self) -> String {
        let mut parts: Vec<String> = self
            .cols
            .iter()
            .map(|c| {
                let mut s = format!("{} {}", c.name, c.ty.sql());
                if c.not_null {
                    s.push_str(" NOT NULL");
                }
                if let Some(d) = &c.default {
                    s.push_str(&format!(" DEFAULT {}", d.sql()));
                }
                s
            })
            .collect();
        for u in &self.uniques {
            parts.push(format!("UNIQUE({})", u.iter().map(|i| self.cols[*i].name.clone()).collect::<Vec<_>>().join(", ")));
        }
        format!("CREATE TABLE {} ({})", self.name, parts.join(", "))
    }
}

#[derive(Clone, Debug, Default, PartialEq)]
pub struct State {
    pub tables: BTreeMap<String, Table>,
}

// ---------------------------------------------------------------------------------------------
// expressions

#[derive(Clone, Copy, Debug, PartialEq, Eq, Hash)]
pub enum Op {
    Or,
    And,
    Eq,
    Ne,
    Lt,
    Le,
    Gt,
    Ge,
    Add,
    Sub,
    Mul,
    Div,
    Mod,
    Concat,
}

impl Op {
    pub fn sql(&self) -> &'static str {
        match self {
            Op::Or => "OR",
            Op::And => "AND",
            Op::Eq => "=",
            Op::Ne => "<>",
            Op::Lt => "<",
            Op::Le => "<=",
            Op::Gt => ">",
            Op::Ge => ">=",
            Op::Add => "+",
            Op::Sub => "-",
            Op::Mul => "*",
            Op::Div => "/",
            Op::Mod => "%",
            Op::Concat => "||",
        }
    }
    /// documented precedence: OR < AND < NOT < comparison < + - || < * / % < unary
    pub fn prec(&self) -> u8 {
        match self {
            Op::Or => 1,
            Op::And => 2,
            Op::Eq | Op::Ne | Op::Lt | Op::Le | Op::Gt | Op::Ge => 4,
            Op::Add | Op::Sub | Op::Concat => 5,
            Op::Mul | Op::Div | Op::Mod => 6,
        }
    }
    pub fn is_cmp(&self) -> bool {
        self.prec() == 4
    }
    pub fn atom(&self) -> &'static str {
        match self {
            Op::Or => "op.or",
            Op::And => "op.and",
            Op::Eq => "op.eq",
            Op::Ne => "op.ne",
            Op::Lt => "op.lt",
            Op::Le => "op.le",
            Op::Gt => "op.gt",
            Op::Ge => "op.ge",
            Op::Add => "op.add",
            Op::Sub => "op.sub",
            Op::Mul => "op.mul",
            Op::Div => "op.div",
            Op::Mod => "op.mod",
            Op::Concat => "op.concat",
        }
    }
}

#[derive(Clone, Debug, PartialEq)]
pub enum Expr {
    /// (qualifier, column)
    Col(Option<String>, String),
    Lit(V),
    Bin(Op, Box<Expr>, Box<Expr>),
    Not(Box<Expr>),
    Neg(Box<Expr>),
    IsNull(Box<Expr>, bool),
    Between(Box<Expr>, Box<Expr>, Box<Expr>, bool),
    In(Box<Expr>, Vec<Expr>, bool),
    Like(Box<Expr>, String, bool),
    Func(String, Vec<Expr>),
}

pub fn col(c: &str) -> Expr {
    Expr::Col(None, c.to_string())
}
pub fn qcol(q: &str, c: &str) -> Expr {
    Expr::Col(Some(q.to_string()), c.to_string())
}
pub fn lit_i(i: i64) -> Expr {
    Expr::Lit(V::I(i as i128))
}
pub fn lit_t(s: &str) -> Expr {
    Expr::Lit(V::T(s.to_string()))
}
pub fn bin(op: Op, l: Expr, r: Expr) -> Expr {
    Expr::Bin(op, Box::new(l), Box::new(r))
}

impl Expr {
    fn prec(&self) -> u8 {
        match self {
            Expr::Bin(op, _, _) => op.prec(),
            Expr::Not(_) => 3,
            Expr::IsNull(..) | Expr::Between(..) | Expr::In(..) | Expr::Like(..) => 4,
            Expr::Neg(_) => 7,
            Expr::Lit(V::I(i)) if *i < 0 => 7,
            Expr::Lit(V::F(f)) if *f < 0.0 => 7,
            _ => 9,
        }
    }
    /// SQL text with only the parentheses the documented precedence requires (`full` = parenthesise everything).
    pub fn sql(&self, full: bool) -> String {
        let wrap = |e: &Expr, min: u8| -> String {
            let s = e.sql(full);
            if (full && e.prec() < 9) || e.prec() < min { format!("({})", s) } else { s }
        };
        match self {
            Expr::Col(Some(q), c) => format!("{}.{}", q, c),
            Expr::Col(None, c) => c.clone(),
            Expr::Lit(v) => v.sql(),
            Expr::Bin(op, l, r) => {
                let p = op.prec();
                // left-associative: right child of equal precedence needs parentheses; comparisons never chain
                let (lmin, rmin) = if op.is_cmp() { (p + 1, p + 1) } else { (p, p + 1) };
                format!("{} {} {}", wrap(l, lmin), op.sql(), wrap(r, rmin))
            }
            Expr::Not(e) => format!("NOT {}", wrap(e, 3)),
            Expr::Neg(e) => format!("-{}", wrap(e, 8)),
            Expr::IsNull(e, neg) => format!("{} IS {}NULL", wrap(e, 5), if *neg { "NOT " } else { "" }),
            Expr::Between(e, lo, hi, neg) => {
                format!("{} {}BETWEEN {} AND {}", wrap(e, 5), if *neg { "NOT " } else { "" }, wrap(lo, 5), wrap(hi, 5))
            }
            Expr::In(e, list, neg) => format!(
                "{} {}IN ({})",
                wrap(e, 5),
                if *neg { "NOT " } else { "" },
                list.iter().map(|x| x.sql(full)).collect::<Vec<_>>().join(", ")
            ),
            Expr::Like(e, pat, neg) => format!("{} {}LIKE '{}'", wrap(e, 5), if *neg { "NOT " } else { "" }, pat.replace('\'', "''")),
            Expr::Func(name, args) => format!("{}({})", name, args.iter().map(|x| x.sql(full)).collect::<Vec<_>>().join(", ")),
        }
    }
    /// feature atoms used by this expression
    pub fn atoms(&self, out: &mut Vec<String>) {
        match self {
            Expr::Col(..) => {}
            Expr::Lit(v) => {
                if v.is_null() {
                    out.push("lit.null".into())
                }
                if let V::F(_) = v {
                    out.push("lit.float".into())
                }
            }
            Expr::Bin(op, l, r) => {
                out.push(op.atom().into());
                l.atoms(out);
                r.atoms(out);
            }
            Expr::Not(e) => {
                match **e {
                    Expr::Between(..) | Expr::In(..) | Expr::IsNull(..) | Expr::Like(..) => out.push("op.not_over_special".into()),
                    _ => out.push("op.not".into()),
                }
                e.atoms(out)
            }
            Expr::Neg(e) => {
                out.push("op.neg".into());
                e.atoms(out)
            }
            Expr::IsNull(e, neg) => {
                out.push(if *neg { "op.is_not_null" } else { "op.is_null" }.into());
                e.atoms(out)
            }
            Expr::Between(e, lo, hi, neg) => {
                out.push(if *neg { "op.not_between" } else { "op.between" }.into());
                e.atoms(out);
                lo.atoms(out);
                hi.atoms(out)
            }
            Expr::In(e, l, neg) => {
                if l.iter().any(|x| matches!(x, Expr::Lit(V::Null))) {
                    out.push("in.null_item".into());
                }
                out.push(if *neg { "op.not_in" } else { "op.in" }.into());
                e.atoms(out);
                for x in l {
                    x.atoms(out)
                }
            }
            Expr::Like(e, _, neg) => {
                out.push(if *neg { "op.not_like" } else { "op.like" }.into());
                e.atoms(out)
            }
            Expr::Func(n, a) => {
                out.push(format!("fn.{}", n.to_lowercase()));
                for x in a {
                    x.atoms(out)
                }
            }
        }
    }
}

/// Evaluation error classes: any engine *error* is accepted where the model says Err.
#[derive(Clone, Debug, PartialEq)]
pub enum MErr {
    Arith(String),
    Type(String),
    Name(String),
    Constraint(String),
    Other(String),
}

pub type MRes<T> = Result<T, MErr>;

/// Row environment: (qualifier, column name) -> value
pub struct Env<'a> {
    pub names: &'a [(String, String)],
    pub vals: &'a [V],
}

impl<'a> Env<'a> {
    fn lookup(&self, q: &Option<String>, c: &str) -> MRes<V> {
        let mut found: Option<usize> = None;
        for (i, (tq, tc)) in self.names.iter().enumerate() {
            if tc == c && q.as_ref().map(|q| q == tq).unwrap_or(true) {
                if found.is_some() {
                    return Err(MErr::Name(format!("ambiguous column {}", c)));
                }
                found = Some(i);
            }
        }
        found.map(|i| self.vals[i].clone()).ok_or_else(|| MErr::Name(format!("unknown column {}", c)))
    }
}

pub fn cmp_vals(a: &V, b: &V) -> MRes<Option<std::cmp::Ordering>> {
    use std::cmp::Ordering::*;
    Ok(match (a, b) {
        (V::Null, _) | (_, V::Null) => None,
        (V::I(x), V::I(y)) => Some(x.cmp(y)),
        (V::I(_), V::F(_)) | (V::F(_), V::I(_)) | (V::F(_), V::F(_)) => {
            let (x, y) = (a.as_f().unwrap(), b.as_f().unwrap());
            Some(x.partial_cmp(&y).unwrap_or(Equal))
        }
        (V::T(x), V::T(y)) => Some(x.as_bytes().cmp(y.as_bytes())),
        (V::Bool(x), V::Bool(y)) => Some(x.cmp(y)),
        _ => return Err(MErr::Type(format!("cannot compare {} with {}", a.show(), b.show()))),
    })
}

fn truth(v: &V) -> MRes<Option<bool>> {
    match v {
        V::Null => Ok(None),
        V::Bool(b) => Ok(Some(*b)),
        other => Err(MErr::Type(format!("not a boolean: {}", other.show()))),
    }
}

fn tri(b: Option<bool>) -> V {
    match b {
        None => V::Null,
        Some(x) => V::Bool(x),
    }
}

pub fn like_match(s: &str, pat: &str) -> bool {
    let s: Vec<char> = s.chars().collect();
    let p: Vec<char> = pat.chars().collect();
    fn go(s: &[char], p: &[char]) -> bool {
        if p.is_empty() {
            return s.is_empty();
        }
        match p[0] {
            '%' => (0..=s.len()).any(|k| go(&s[k..], &p[1..])),
            '_' => !s.is_empty() && go(&s[1..], &p[1..]),
            c => !s.is_empty() && s[0] == c && go(&s[1..], &p[1..]),
        }
    }
    go(&s, &p)
}

fn arith(op: Op, a: &V, b: &V) -> MRes<V> {
    if a.is_null() || b.is_null() {
        return Ok(V::Null);
    }
    match (a, b) {
        (V::I(x), V::I(y)) => {
            let r = match op {
                Op::Add => x.checked_add(*y),
                Op::Sub => x.checked_sub(*y),
                Op::Mul => x.checked_mul(*y),
                Op::Div => {
                    if *y == 0 {
                        return Err(MErr::Arith("division by zero".into()));
                    }
                    Some(x / y)
                }
                Op::Mod => {
                    if *y == 0 {
                        return Err(MErr::Arith("modulo by zero".into()));
                    }
                    Some(x % y)
                }
                _ => unreachable!(),
            };
            let r = r.ok_or(MErr::Arith("overflow".into()))?;
            if r > i64::MAX as i128 || r < i64::MIN as i128 {
                return Err(MErr::Arith("overflow".into()));
            }
            Ok(V::I(r))
        }
        (V::I(_), V::F(_)) | (V::F(_), V::I(_)) | (V::F(_), V::F(_)) => {
            let (x, y) = (a.as_f().unwrap(), b.as_f().unwrap());
            let r = match op {
                Op::Add => x + y,
                Op::Sub => x - y,
                Op::Mul => x * y,
                Op::Div => {
                    if y == 0.0 {
                        return Err(MErr::Arith("division by zero".into()));
                    }
                    x / y
                }
                Op::Mod => {
                    if y == 0.0 {
                        return Err(MErr::Arith("modulo by zero".into()));
                    }
                    x % y
                }
                _ => unreachable!(),
            };
            Ok(V::F(r))
        }
        _ => Err(MErr::Type(format!("arithmetic on {} and {}", a.show(), b.show()))),
    }
}

pub fn eval(e: &Expr, env: &Env) -> MRes<V> {
    Ok(match e {
        Expr::Col(q, c) => env.lookup(q, c)?,
        Expr::Lit(v) => v.clone(),
        Expr::Bin(op, l, r) => match op {
            Op::And => {
                let a = truth(&eval(l, env)?)?;
                let b = truth(&eval(r, env)?)?;
                tri(match (a, b) {
                    (Some(false), _) | (_, Some(false)) => Some(false),
                    (Some(true), Some(true)) => Some(true),
                    _ => None,
                })
            }
            Op::Or => {
                let a = truth(&eval(l, env)?)?;
                let b = truth(&eval(r, env)?)?;
                tri(match (a, b) {
                    (Some(true), _) | (_, Some(true)) => Some(true),
                    (Some(false), Some(false)) => Some(false),
                    _ => None,
                })
            }
            Op::Eq | Op::Ne | Op::Lt | Op::Le | Op::Gt | Op::Ge => {
                let a = eval(l, env)?;
                let b = eval(r, env)?;
                use std::cmp::Ordering::*;
                tri(cmp_vals(&a, &b)?.map(|o| match op {
                    Op::Eq => o == Equal,
                    Op::Ne => o != Equal,
                    Op::Lt => o == Less,
                    Op::Le => o != Greater,
                    Op::Gt => o == Greater,
                    Op::Ge => o != Less,
                    _ => unreachable!(),
                }))
            }
            Op::Concat => {
                let a = eval(l, env)?;
                let b = eval(r, env)?;
                match (&a, &b) {
                    (V::Null, _) | (_, V::Null) => V::Null,
                    (V::T(x), V::T(y)) => V::T(format!("{}{}", x, y)),
                    _ => return Err(MErr::Type("concat of non-text".into())),
                }
            }
            _ => arith(*op, &eval(l, env)?, &eval(r, env)?)?,
        },
        Expr::Not(x) => tri(truth(&eval(x, env)?)?.map(|b| !b)),
        Expr::Neg(x) => match eval(x, env)? {
            V::Null => V::Null,
            V::I(i) => V::I(-i),
            V::F(f) => V::F(-f),
            o => return Err(MErr::Type(format!("negation of {}", o.show()))),
        },
        Expr::IsNull(x, neg) => {
            let v = eval(x, env)?;
            V::Bool(v.is_null() != *neg)
        }
        Expr::Between(x, lo, hi, neg) => {
            let v = eval(x, env)?;
            let l = eval(lo, env)?;
            let h = eval(hi, env)?;
            use std::cmp::Ordering::*;
            let ge = cmp_vals(&v, &l)?.map(|o| o != Less);
            let le = cmp_vals(&v, &h)?.map(|o| o != Greater);
            let r = match (ge, le) {
                (Some(false), _) | (_, Some(false)) => Some(false),
                (Some(true), Some(true)) => Some(true),
                _ => None,
            };
            tri(r.map(|b| b != *neg))
        }
        Expr::In(x, list, neg) => {
            let v = eval(x, env)?;
            if v.is_null() {
                return Ok(V::Null);
            }
            let mut any_null = false;
            let mut hit = false;
            for it in list {
                let w = eval(it, env)?;
                match cmp_vals(&v, &w)? {
                    None => any_null = true,
                    Some(std::cmp::Ordering::Equal) => hit = true,
                    _ => {}
                }
            }
            let r = if hit { Some(true) } else if any_null { None } else { Some(false) };
            tri(r.map(|b| b != *neg))
        }
        Expr::Like(x, pat, neg) => match eval(x, env)? {
            V::Null => V::Null,
            V::T(s) => V::Bool(like_match(&s, pat) != *neg),
            o => return Err(MErr::Type(format!("LIKE on {}", o.show()))),
        },
        Expr::Func(name, args) => {
            let vals: Vec<V> = args.iter().map(|a| eval(a, env)).collect::<MRes<_>>()?;
            eval_func(name, &vals)?
        }
    })
}

fn eval_func(name: &str, a: &[V]) -> MRes<V> {
    let n = name.to_uppercase();
    match n.as_str() {
        "COALESCE" => Ok(a.iter().find(|v| !v.is_null()).cloned().unwrap_or(V::Null)),
        "NULLIF" => {
            if a.len() != 2 {
                return Err(MErr::Type("NULLIF arity".into()));
            }
            match cmp_vals(&a[0], &a[1])? {
                Some(std::cmp::Ordering::Equal) => Ok(V::Null),
                _ => Ok(a[0].clone()),
            }
        }
        _ => {
            if a.iter().any(|v| v.is_null()) {
                return Ok(V::Null);
            }
            match (n.as_str(), a) {
                ("ABS", [V::I(i)]) => Ok(V::I(i.abs())),
                ("ABS", [V::F(f)]) => Ok(V::F(f.abs())),
                ("ROUND", [V::F(f)]) => Ok(V::F(f.round())),
                ("CEIL", [V::F(f)]) => Ok(V::F(f.ceil())),
                ("FLOOR", [V::F(f)]) => Ok(V::F(f.floor())),
                ("ROUND", [V::I(i)]) | ("CEIL", [V::I(i)]) | ("FLOOR", [V::I(i)]) => Ok(V::I(*i)),
                ("SQRT", [v]) if v.as_f().map(|f| f >= 0.0).unwrap_or(false) => Ok(V::F(v.as_f().unwrap().sqrt())),
                ("LENGTH", [V::T(s)]) => Ok(V::I(s.len() as i128)),
                ("UPPER", [V::T(s)]) => Ok(V::T(s.to_uppercase())),
                ("LOWER", [V::T(s)]) => Ok(V::T(s.to_lowercase())),
                ("LTRIM", [V::T(s)]) => Ok(V::T(s.trim_start().to_string())),
                ("RTRIM", [V::T(s)]) => Ok(V::T(s.trim_end().to_string())),
                ("CONCAT", xs) if xs.iter().all(|x| matches!(x, V::T(_))) => {
                    Ok(V::T(xs.iter().map(|x| if let V::T(s) = x { s.as_str() } else { "" }).collect::<String>()))
                }
                _ => Err(MErr::Type(format!("bad call {}", name))),
            }
        }
    }
}

// ---------------------------------------------------------------------------------------------
// statements

#[derive(Clone, Copy, Debug, PartialEq, Eq, Hash)]
pub enum JoinKind {
    Inner,
    Left,
    Right,
    Full,
    Cross,
    Comma,
}

impl JoinKind {
    pub fn atom(&self) -> &'static str {
        match self {
            JoinKind::Inner => "join.inner",
            JoinKind::Left => "join.left",
            JoinKind::Right => "join.right",
            JoinKind::Full => "join.full",
            JoinKind::Cross => "join.cross",
            JoinKind::Comma => "join.comma",
        }
    }
}

#[derive(Clone, Debug, PartialEq)]
pub struct FromItem {
    pub table: String,
    pub alias: Option<String>,
    /// how this item is joined to everything on its left (ignored for the first item)
    pub join: JoinKind,
    pub on: Option<Expr>,
}

#[derive(Clone, Copy, Debug, PartialEq, Eq, Hash)]
pub enum Agg {
    CountStar,
    Count,
    CountDistinct,
    Sum,
    Min,
    Max,
    Avg,
}

impl Agg {
    pub fn atom(&self) -> &'static str {
        match self {
            Agg::CountStar => "agg.count_star",
            Agg::Count => "agg.count",
            Agg::CountDistinct => "agg.count_distinct",
            Agg::Sum => "agg.sum",
            Agg::Min => "agg.min",
            Agg::Max => "agg.max",
            Agg::Avg => "agg.avg",
        }
    }
}

#[derive(Clone, Debug, PartialEq)]
pub enum Item {
    Star,
    Expr(Expr),
    Agg(Agg, Option<Expr>),
}

impl Item {
    pub fn sql(&self, full: bool) -> String {
        match self {
            Item::Star => "*".into(),
            Item::Expr(e) => e.sql(full),
            Item::Agg(a, e) => {
                let arg = e.as_ref().map(|x| x.sql(full)).unwrap_or_else(|| "*".into());
                match a {
                    Agg::CountStar => "COUNT(*)".into(),
                    Agg::Count => format!("COUNT({})", arg),
                    Agg::CountDistinct => format!("COUNT(DISTINCT {})", arg),
                    Agg::Sum => format!("SUM({})", arg),
                    Agg::Min => format!("MIN({})", arg),
                    Agg::Max => format!("MAX({})", arg),
                    Agg::Avg => format!("AVG({})", arg),
                }
            }
        }
    }
}

#[derive(Clone, Debug, PartialEq, Default)]
pub struct Select {
    pub distinct: bool,
    pub items: Vec<Item>,
    pub from: Vec<FromItem>,
    pub wher: Option<Expr>,
    pub group_by: Vec<Expr>,
    pub having: Option<Expr>,
    /// (index into items, descending)
    pub order_by: Vec<(usize, bool)>,
    pub limit: Option<u64>,
    pub offset: Option<u64>,
}

impl Select {
    pub fn sql(&self, full: bool) -> String {
        let mut s = String::from("SELECT ");
        if self.distinct {
            s.push_str("DISTINCT ");
        }
        s.push_str(&self.items.iter().map(|i| i.sql(full)).collect::<Vec<_>>().join(", "));
        s.push_str(" FROM ");
        for (i, f) in self.from.iter().enumerate() {
            let name = match &f.alias {
                Some(a) => format!("{} {}", f.table, a),
                None => f.table.clone(),
            };
            if i == 0 {
                s.push_str(&name);
            } else {
                match f.join {
                    JoinKind::Comma => s.push_str(&format!(", {}", name)),
                    JoinKind::Cross => s.push_str(&format!(" CROSS JOIN {}", name)),
                    k => {
                        let kw = match k {
                            JoinKind::Inner => "JOIN",
                            JoinKind::Left => "LEFT JOIN",
                            JoinKind::Right => "RIGHT JOIN",
                            JoinKind::Full => "FULL JOIN",
                            _ => unreachable!(),
                        };
                        s.push_str(&format!(" {} {} ON {}", kw, name, f.on.as_ref().map(|e| e.sql(full)).unwrap_or_else(|| "TRUE".into())));
                    }
                }
            }
        }
        if let Some(w) = &self.wher {
            s.push_str(&format!(" WHERE {}", w.sql(full)));
        }
        if !self.group_by.is_empty() {
            s.push_str(&format!(" GROUP BY {}", self.group_by.iter().map(|e| e.sql(full)).collect::<Vec<_>>().join(", ")));
        }
        if let Some(h) = &self.having {
            s.push_str(&format!(" HAVING {}", h.sql(full)));
        }
        if !self.order_by.is_empty() {
            s.push_str(" ORDER BY ");
            s.push_str(
                &self
                    .order_by
                    .iter()
                    .map(|(i, d)| format!("{}{}", self.items[*i].sql(full), if *d { " DESC" } else { "" }))
                    .collect::<Vec<_>>()
                    .join(", "),
            );
        }
        if let Some(l) = self.limit {
            s.push_str(&format!(" LIMIT {}", l));
        }
        if let Some(o) = self.offset {
            s.push_str(&format!(" OFFSET {}", o));
        }
        s
    }

    pub fn atoms(&self) -> Vec<String> {
        let mut a = vec![];
        if self.distinct {
            a.push("sel.distinct".to_string());
        }
        for it in &self.items {
            match it {
                Item::Star => a.push("sel.star".into()),
                Item::Expr(e) => {
                    if matches!(e, Expr::Not(_) | Expr::IsNull(..) | Expr::Between(..) | Expr::In(..) | Expr::Like(..))
                        || matches!(e, Expr::Bin(op, _, _) if op.prec() <= 4)
                    {
                        a.push("sel.pred_item".into());
                    }
                    e.atoms(&mut a)
                }
                Item::Agg(g, e) => {
                    a.push(g.atom().into());
                    if let Some(e) = e {
                        e.atoms(&mut a)
                    }
                }
            }
        }
        for (i, f) in self.from.iter().enumerate() {
            if i > 0 {
                a.push(f.join.atom().into());
            }
            if let Some(e) = &f.on {
                match e {
                    Expr::Bin(Op::Eq, l, r) if matches!(**l, Expr::Col(..)) && matches!(**r, Expr::Col(..)) => a.push("join.on_equi_cols".into()),
                    _ => a.push("join.on_other".into()),
                }
                e.atoms(&mut a)
            }
        }
        if self.from.len() > 2 {
            a.push("join.three_tables".into());
        }
        if self.from.len() > 1 && self.from.iter().enumerate().any(|(i, f)| self.from[..i].iter().any(|g| g.table == f.table)) {
            a.push("join.self".into());
        }
        if let Some(w) = &self.wher {
            a.push("sel.where".into());
            if self.from.len() > 1 {
                a.push("join.where".into());
            }
            w.atoms(&mut a)
        }
        if !self.group_by.is_empty() {
            a.push("sel.group_by".into());
            if !self.order_by.is_empty() {
                a.push("sel.order_by.group".into());
            }
        }
        if let Some(h) = &self.having {
            a.push("sel.having".into());
            h.atoms(&mut a)
        }
        if !self.order_by.is_empty() {
            a.push("sel.order_by".into());
            if self.order_by.iter().any(|(_, d)| *d) {
                a.push("sel.order_desc".into());
            }
            if self.order_by.iter().any(|(i, _)| !matches!(self.items[*i], Item::Expr(Expr::Col(..)))) {
                a.push("sel.order_by_expr".into());
            }
            if self.order_by.len() > 1 {
                a.push("sel.order_by_multi".into());
            }
            if self.distinct {
                a.push("sel.distinct_order".into());
            }
        }
        if self.limit.is_some() {
            a.push("sel.limit".into());
        }
        if self.offset.is_some() {
            a.push("sel.offset".into());
        }
        a.sort();
        a.dedup();
        a
    }
}

#[derive(Clone, Debug, PartialEq)]
pub enum Stmt {
    Create(Table),
    Drop(String),
    /// table, optional column list, rows of expressions
    Insert(String, Option<Vec<String>>, Vec<Vec<Expr>>),
    Update(String, Vec<(String, Expr)>, Option<Expr>),
    Delete(String, Option<Expr>),
    Select(Select),
    /// ALTER TABLE t DROP COLUMN c
    DropColumn(String, String),
    /// CREATE UNIQUE INDEX name ON t (c)
    CreateIndex(String, String, String),
}

impl Stmt {
    pub fn sql(&self) -> String {
        self.sql_mode(false)
    }
    pub fn sql_mode(&self, full: bool) -> String {
        match self {
            Stmt::Create(t) => t.create_sql(),
            Stmt::Drop(n) => format!("DROP TABLE {}", n),
            Stmt::Insert(t, cols, rows) => {
                let cl = cols.as_ref().map(|c| format!(" ({})", c.join(", "))).unwrap_or_default();
                let rs = rows
                    .iter()
                    .map(|r| format!("({})", r.iter().map(|e| e.sql(full)).collect::<Vec<_>>().join(", ")))
                    .collect::<Vec<_>>()
                    .join(", ");
                format!("INSERT INTO {}{} VALUES {}", t, cl, rs)
            }
            Stmt::Update(t, sets, w) => {
                let ss = sets.iter().map(|(c, e)| format!("{} = {}", c, e.sql(full))).collect::<Vec<_>>().join(", ");
                match w {
                    Some(w) => format!("UPDATE {} SET {} WHERE {}", t, ss, w.sql(full)),
                    None => format!("UPDATE {} SET {}", t, ss),
                }
            }
            Stmt::Delete(t, w) => match w {
                Some(w) => format!("DELETE FROM {} WHERE {}", t, w.sql(full)),
                None => format!("DELETE FROM {}", t),
            },
            Stmt::Select(s) => s.sql(full),
            Stmt::DropColumn(t, c) => format!("ALTER TABLE {} DROP COLUMN {}", t, c),
            Stmt::CreateIndex(n, t, c) => format!("CREATE UNIQUE INDEX {} ON {} ({})", n, t, c),
        }
    }
    pub fn atoms(&self) -> Vec<String> {
        let mut a: Vec<String> = vec![];
        match self {
            Stmt::Create(_) => a.push("stmt.create".into()),
            Stmt::Drop(_) => a.push("stmt.drop".into()),
            Stmt::Insert(_, c, rows) => {
                a.push("stmt.insert".into());
                if c.is_some() {
                    a.push("ins.col_list".into());
                }
                if rows.len() > 1 {
                    a.push("ins.multi_row".into());
                }
                for r in rows {
                    for e in r {
                        e.atoms(&mut a)
                    }
                }
            }
            Stmt::Update(_, sets, w) => {
                a.push("stmt.update".into());
                if sets.len() > 1 {
                    a.push("upd.multi_set".into());
                }
                for (_, e) in sets {
                    if matches!(e, Expr::Lit(V::Null)) {
                        a.push("upd.set_null".into());
                    }
                    if matches!(e, Expr::Lit(V::T(_))) {
                        a.push("upd.set_text".into());
                    }
                    if !matches!(e, Expr::Lit(_)) {
                        a.push("upd.set_expr".into());
                    }
                    e.atoms(&mut a)
                }
                if let Some(w) = w {
                    a.push("sel.where".into());
                    w.atoms(&mut a)
                }
            }
            Stmt::Delete(_, w) => {
                a.push("stmt.delete".into());
                if let Some(w) = w {
                    a.push("sel.where".into());
                    w.atoms(&mut a)
                }
            }
            Stmt::Select(s) => {
                a.push("stmt.select".into());
                a.extend(s.atoms());
            }
            Stmt::DropColumn(..) => a.push("stmt.alter_drop_column".into()),
            Stmt::CreateIndex(..) => a.push("stmt.create_index".into()),
        }
        a.sort();
        a.dedup();
        a
    }
}

#[derive(Clone, Debug, PartialEq)]
pub enum MOut {
    /// rows; `sorted_on` = (output column index, desc) keys the sequence must respect; `exact_bag` false when
    /// LIMIT/OFFSET without a total order makes only the count and membership checkable.
    Rows { rows: Vec<RowV>, sorted_on: Vec<(usize, bool)>, exact_bag: bool, pool: Vec<RowV> },
    Affected(u64),
    Ddl,
    Err(MErr),
}

/// Coerce a value for storage in a column of type `ty` (the engine casts numerics on INSERT/UPDATE).
pub fn coerce(v: &V, ty: Ty) -> MRes<V> {
    match (v, ty) {
        (V::Null, _) => Ok(V::Null),
        (V::I(i), t) if t.is_int() => {
            let (lo, hi) = t.int_range().unwrap();
            if *i < lo || *i > hi {
                return Err(MErr::Type("integer out of range".into()));
            }
            Ok(V::I(*i))
        }
        (V::I(i), Ty::Double) | (V::I(i), Ty::Float) => Ok(V::F(*i as f64)),
        (V::F(f), Ty::Double) => Ok(V::F(*f)),
        (V::F(f), Ty::Float) => Ok(V::F(*f as f32 as f64)),
        (V::F(f), t) if t.is_int() => {
            // engine truncates toward zero on float -> int casts
            let tr = f.trunc();
            let (lo, hi) = t.int_range().unwrap();
            if !tr.is_finite() || (tr as i128) < lo || (tr as i128) > hi {
                return Err(MErr::Type("float out of range".into()));
            }
            Ok(V::I(tr as i128))
        }
        (V::T(s), Ty::Text) => Ok(V::T(s.clone())),
        (V::Bool(b), Ty::Bool) => Ok(V::Bool(*b)),
        (v, t) => Err(MErr::Type(format!("cannot store {} in {:?}", v.show(), t))),
    }
}

fn violates_unique(t: &Table, rows: &[RowV]) -> bool {
    for u in &t.uniques {
        let mut seen = std::collections::BTreeSet::new();
        for r in rows {
            if u.iter().any(|i| r[*i].is_null()) {
                continue;
            }
            let k: Vec<String> = u.iter().map(|i| r[*i].key()).collect();
            if !seen.insert(k) {
                return true;
            }
        }
    }
    false
}

fn check_not_null(t: &Table, r: &RowV) -> MRes<()> {
    for (i, c) in t.cols.iter().enumerate() {
        if c.not_null && r[i].is_null() {
            return Err(MErr::Constraint(format!("NOT NULL on {}", c.name)));
        }
    }
    Ok(())
}

/// NULL sorts as larger than every value (what the engine does for ASC and DESC alike).
pub fn order_cmp(a: &V, b: &V) -> std::cmp::Ordering {
    use std::cmp::Ordering::*;
    match (a.is_null(), b.is_null()) {
        (true, true) => Equal,
        (true, false) => Greater,
        (false, true) => Less,
        _ => cmp_vals(a, b).ok().flatten().unwrap_or(Equal),
    }
}

impl State {
    pub fn table(&self, n: &str) -> MRes<&Table> {
        self.tables.get(n).ok_or_else(|| MErr::Name(format!("table {} not found", n)))
    }

    /// Apply a statement; on Err the state is unchanged (statement atomicity).
    pub fn apply(&mut self, st: &Stmt) -> MOut {
        let saved = self.clone();
        match self.apply_inner(st) {
            Ok(o) => o,
            Err(e) => {
                *self = saved;
                MOut::Err(e)
            }
        }
    }

    fn apply_inner(&mut self, st: &Stmt) -> MRes<MOut> {
        match st {
            Stmt::Create(t) => {
                if self.tables.contains_key(&t.name) {
                    return Err(MErr::Name("table exists".into()));
                }
                let mut t = t.clone();
                t.rows.clear();
                self.tables.insert(t.name.clone(), t);
                Ok(MOut::Ddl)
            }
            Stmt::Drop(n) => {
                if self.tables.remove(n).is_none() {
                    return Err(MErr::Name("no such table".into()));
                }
                Ok(MOut::Ddl)
            }
            Stmt::Insert(tn, cols, rows) => {
                let t = self.table(tn)?.clone();
                let mut new_rows = vec![];
                for r in rows {
                    let mut full: RowV = t.cols.iter().map(|c| c.default.clone().unwrap_or(V::Null)).collect();
                    let targets: Vec<usize> = match cols {
                        Some(cl) => cl.iter().map(|c| t.col_idx(c).ok_or(MErr::Name(format!("no column {}", c)))).collect::<MRes<_>>()?,
                        None => (0..t.cols.len()).collect(),
                    };
                    if targets.len() != r.len() {
                        return Err(MErr::Type("column count mismatch".into()));
                    }
                    let env = Env { names: &[], vals: &[] };
                    for (k, e) in targets.iter().zip(r.iter()) {
                        let v = eval(e, &env)?;
                        full[*k] = coerce(&v, t.cols[*k].ty)?;
                    }
                    check_not_null(&t, &full)?;
                    new_rows.push(full);
                }
                let tm = self.tables.get_mut(tn).unwrap();
                let mut all = tm.rows.clone();
                all.extend(new_rows.iter().cloned());
                if violates_unique(&t, &all) {
                    return Err(MErr::Constraint("UNIQUE".into()));
                }
                tm.rows = all;
                Ok(MOut::Affected(new_rows.len() as u64))
            }
            Stmt::Update(tn, sets, w) => {
                let t = self.table(tn)?.clone();
                let names: Vec<(String, String)> = t.cols.iter().map(|c| (t.name.clone(), c.name.clone())).collect();
                let mut out = vec![];
                let mut n = 0u64;
                for r in &t.rows {
                    let env = Env { names: &names, vals: r };
                    let hit = match w {
                        Some(w) => truth(&eval(w, &env)?)? == Some(true),
                        None => true,
                    };
                    if hit {
                        let mut nr = r.clone();
                        for (c, e) in sets {
                            let i = t.col_idx(c).ok_or(MErr::Name(format!("no column {}", c)))?;
                            nr[i] = coerce(&eval(e, &env)?, t.cols[i].ty)?;
                        }
                        check_not_null(&t, &nr)?;
                        out.push(nr);
                        n += 1;
                    } else {
                        out.push(r.clone());
                    }
                }
                if violates_unique(&t, &out) {
                    return Err(MErr::Constraint("UNIQUE".into()));
                }
                self.tables.get_mut(tn).unwrap().rows = out;
                Ok(MOut::Affected(n))
            }
            Stmt::Delete(tn, w) => {
                let t = self.table(tn)?.clone();
                let names: Vec<(String, String)> = t.cols.iter().map(|c| (t.name.clone(), c.name.clone())).collect();
                let mut out = vec![];
                let mut n = 0u64;
                for r in &t.rows {
                    let env = Env { names: &names, vals: r };
                    let hit = match w {
                        Some(w) => truth(&eval(w, &env)?)? == Some(true),
                        None => true,
                    };
                    if hit {
                        n += 1
                    } else {
                        out.push(r.clone())
                    }
                }
                self.tables.get_mut(tn).unwrap().rows = out;
                Ok(MOut::Affected(n))
            }
            Stmt::Select(s) => self.select(s),
            Stmt::DropColumn(tn, c) => {
                let t = self.tables.get_mut(tn).ok_or(MErr::Name("no such table".into()))?;
                let i = t.col_idx(c).ok_or(MErr::Name("no such column".into()))?;
                if t.uniques.iter().any(|u| u.contains(&i)) {
                    return Err(MErr::Other("column is part of a constraint".into()));
                }
                t.cols.remove(i);
                for r in t.rows.iter_mut() {
                    r.remove(i);
                }
                for u in t.uniques.iter_mut() {
                    for k in u.iter_mut() {
                        if *k > i {
                            *k -= 1;
                        }
                    }
                }
                Ok(MOut::Ddl)
            }
            Stmt::CreateIndex(_, tn, c) => {
                let t = self.tables.get_mut(tn).ok_or(MErr::Name("no such table".into()))?;
                let i = t.col_idx(c).ok_or(MErr::Name("no such column".into()))?;
                let mut probe = t.clone();
                probe.uniques.push(vec![i]);
                if violates_unique(&probe, &probe.rows) {
                    return Err(MErr::Constraint("existing duplicates".into()));
                }
                t.uniques.push(vec![i]);
                Ok(MOut::Ddl)
            }
        }
    }

    pub fn select(&self, s: &Select) -> MRes<MOut> {
        // FROM / joins
        let mut names: Vec<(String, String)> = vec![];
        let mut rows: Vec<RowV> = vec![vec![]];
        for (i, f) in s.from.iter().enumerate() {
            let t = self.table(&f.table)?;
            let q = f.alias.clone().unwrap_or_else(|| t.name.clone());
            let rnames: Vec<(String, String)> = t.cols.iter().map(|c| (q.clone(), c.name.clone())).collect();
            let mut all_names = names.clone();
            all_names.extend(rnames.iter().cloned());
            let lw = names.len();
            let rw = rnames.len();
            if i == 0 {
                rows = t.rows.clone();
            } else {
                let mut out = vec![];
                let mut right_hit = vec![false; t.rows.len()];
                for l in &rows {
                    let mut hit = false;
                    for (ri, r) in t.rows.iter().enumerate() {
                        let mut c = l.clone();
                        c.extend(r.iter().cloned());
                        let ok = match (&f.on, f.join) {
                            (_, JoinKind::Cross) | (_, JoinKind::Comma) | (None, _) => true,
                            (Some(on), _) => truth(&eval(on, &Env { names: &all_names, vals: &c })?)? == Some(true),
                        };
                        if ok {
                            hit = true;
                            right_hit[ri] = true;
                            out.push(c);
                        }
                    }
                    if !hit && matches!(f.join, JoinKind::Left | JoinKind::Full) {
                        let mut c = l.clone();
                        c.extend(std::iter::repeat(V::Null).take(rw));
                        out.push(c);
                    }
                }
                if matches!(f.join, JoinKind::Right | JoinKind::Full) {
                    for (ri, r) in t.rows.iter().enumerate() {
                        if !right_hit[ri] {
                            let mut c: RowV = std::iter::repeat(V::Null).take(lw).collect();
                            c.extend(r.iter().cloned());
                            out.push(c);
                        }
                    }
                }
                rows = out;
            }
            names = all_names;
        }
        // WHERE
        if let Some(w) = &s.wher {
            let mut out = vec![];
            for r in rows {
                if truth(&eval(w, &Env { names: &names, vals: &r })?)? == Some(true) {
                    out.push(r);
                }
            }
            rows = out;
        }
        let has_agg = s.items.iter().any(|i| matches!(i, Item::Agg(..)));
        let mut out_rows: Vec<RowV> = vec![];
        if has_agg || !s.group_by.is_empty() {
            // grouping
            let mut groups: Vec<(Vec<String>, Vec<RowV>)> = vec![];
            if s.group_by.is_empty() {
                groups.push((vec![], rows.clone()));
            } else {
                for r in &rows {
                    let env = Env { names: &names, vals: r };
                    let k: Vec<String> = s.group_by.iter().map(|g| eval(g, &env).map(|v| v.key())).collect::<MRes<_>>()?;
                    match groups.iter_mut().find(|(gk, _)| *gk == k) {
                        Some(g) => g.1.push(r.clone()),
                        None => groups.push((k, vec![r.clone()])),
                    }
                }
            }
            for (_, grows) in &groups {
                let mut o = vec![];
                for it in &s.items {
                    match it {
                        Item::Star => return Err(MErr::Other("* with aggregates".into())),
                        Item::Expr(e) => {
                            let first = grows.first().ok_or(MErr::Other("empty group".into()))?;
                            o.push(eval(e, &Env { names: &names, vals: first })?)
                        }
                        Item::Agg(a, e) => {
                            let mut vals = vec![];
                            if let Some(e) = e {
                                for r in grows {
                                    vals.push(eval(e, &Env { names: &names, vals: r })?);
                                }
                            }
                            o.push(aggregate(*a, grows.len(), &vals)?);
                        }
                    }
                }
                if let Some(h) = &s.having {
                    // HAVING over group: only aggregate-free expressions on grouping columns are generated
                    let first = grows.first().ok_or(MErr::Other("empty group".into()))?;
                    if truth(&eval(h, &Env { names: &names, vals: first })?)? != Some(true) {
                        continue;
                    }
                }
                out_rows.push(o);
            }
        } else {
            for r in &rows {
                let env = Env { names: &names, vals: r };
                let mut o = vec![];
                for it in &s.items {
                    match it {
                        Item::Star => o.extend(r.iter().cloned()),
                        Item::Expr(e) => o.push(eval(e, &env)?),
                        Item::Agg(..) => unreachable!(),
                    }
                }
                out_rows.push(o);
            }
        }
        if s.distinct {
            let mut seen = std::collections::BTreeSet::new();
            out_rows.retain(|r| seen.insert(crate::dbx::row_key(r)));
        }
        // ORDER BY on output positions (Star expands positions; generator only orders when no Star precedes)
        let mut sorted_on = vec![];
        if !s.order_by.is_empty() {
            let keys = s.order_by.clone();
            out_rows.sort_by(|a, b| {
                for (i, d) in &keys {
                    let o = order_cmp(&a[*i], &b[*i]);
                    let o = if *d { o.reverse() } else { o };
                    if o != std::cmp::Ordering::Equal {
                        return o;
                    }
                }
                std::cmp::Ordering::Equal
            });
            sorted_on = keys;
        }
        let pool = out_rows.clone();
        let mut exact = true;
        if s.limit.is_some() || s.offset.is_some() {
            let off = s.offset.unwrap_or(0) as usize;
            let lim = s.limit.map(|l| l as usize).unwrap_or(usize::MAX);
            // exact only if the order is total over the pool
            let total = !sorted_on.is_empty() && {
                let mut ks: Vec<String> = pool.iter().map(|r| sorted_on.iter().map(|(i, _)| r[*i].key()).collect::<Vec<_>>().join("\u{1}")).collect();
                let n = ks.len();
                ks.sort();
                ks.dedup();
                ks.len() == n
            };
            exact = total;
            out_rows = out_rows.into_iter().skip(off).take(lim).collect();
        }
        Ok(MOut::Rows { rows: out_rows, sorted_on, exact_bag: exact, pool })
    }
}

fn aggregate(a: Agg, nrows: usize, vals: &[V]) -> MRes<V> {
    let nn: Vec<&V> = vals.iter().filter(|v| !v.is_null()).collect();
    Ok(match a {
        Agg::CountStar => V::I(nrows as i128),
        Agg::Count => V::I(nn.len() as i128),
        Agg::CountDistinct => {
            let mut s = std::collections::BTreeSet::new();
            for v in &nn {
                s.insert(v.key());
            }
            V::I(s.len() as i128)
        }
        Agg::Sum => {
            if nn.is_empty() {
                V::Null
            } else {
                let mut acc = 0f64;
                for v in &nn {
                    acc += v.as_f().ok_or(MErr::Type("SUM of non-numeric".into()))?;
                }
                V::F(acc)
            }
        }
        Agg::Avg => {
            if nn.is_empty() {
                V::Null
            } else {
                let mut acc = 0f64;
                for v in &nn {
                    acc += v.as_f().ok_or(MErr::Type("AVG of non-numeric".into()))?;
                }
                V::F(acc / nn.len() as f64)
            }
        }
        Agg::Min | Agg::Max => {
            let mut best: Option<&V> = None;
            for v in &nn {
                best = Some(match best {
                    None => v,
                    Some(b) => {
                        let o = cmp_vals(v, b)?.unwrap();
                        if (a == Agg::Min && o == std::cmp::Ordering::Less) || (a == Agg::Max && o == std::cmp::Ordering::Greater) { v } else { b }
                    }
                });
            }
            best.cloned().unwrap_or(V::Null)
        }
    })
}

// ---------------------------------------------------------------------------------------------
// comparison of an engine outcome with the model outcome

#[derive(Clone, Debug, PartialEq)]
pub enum Diverge {
    ExtraRows,
    MissingRows,
    WrongRows,
    WrongOrder,
    WrongCount,
    UnexpectedError(String),
    UnexpectedSuccess,
    WrongKind,
}

impl Diverge {
    pub fn tag(&self) -> String {
        match self {
            Diverge::ExtraRows => "extra-rows".into(),
            Diverge::MissingRows => "missing-rows".into(),
            Diverge::WrongRows => "wrong-rows".into(),
            Diverge::WrongOrder => "wrong-order".into(),
            Diverge::WrongCount => "wrong-count".into(),
            Diverge::UnexpectedError(c) => format!("unexpected-error({})", c),
            Diverge::UnexpectedSuccess => "unexpected-success".into(),
            Diverge::WrongKind => "wrong-kind".into(),
        }
    }
}

/// Coarse class of an engine error text (stable across message rewording).
pub fn err_class(e: &str) -> String {
    let l = e.to_lowercase();
    if l.contains("channel closed") {
        "panic".into()
    } else if l.contains("constraint") || l.contains("unique") || l.contains("not null") {
        "constraint".into()
    } else if l.contains("parse error") {
        "parse".into()
    } else if l.contains("binder error") || l.contains("not found") {
        "bind".into()
    } else if l.contains("type error") || l.contains("data type") || l.contains("invalid arguments") {
        "type".into()
    } else if l.contains("out of memory") {
        "oom".into()
    } else if l.contains("conflict") {
        "conflict".into()
    } else if l.contains("planner") || l.contains("optimi") {
        "plan".into()
    } else {
        "other".into()
    }
}

pub fn compare(engine: &crate::dbx::Out, model: &MOut) -> Option<Diverge> {
    use crate::dbx::{Out, bag, row_key};
    match (engine, model) {
        (Out::Err(_), MOut::Err(_)) => None,
        (Out::Err(e), _) => Some(Diverge::UnexpectedError(err_class(e))),
        (_, MOut::Err(_)) => Some(Diverge::UnexpectedSuccess),
        (Out::Affected(a), MOut::Affected(b)) => {
            if a == b { None } else { Some(Diverge::WrongCount) }
        }
        (Out::Ddl(_), MOut::Ddl) => None,
        (Out::Rows(er), MOut::Rows { rows, sorted_on, exact_bag, pool }) => {
            if *exact_bag {
                let eb = bag(er);
                let mb = bag(rows);
                if eb != mb {
                    let es: std::collections::BTreeSet<_> = eb.iter().collect();
                    let ms: std::collections::BTreeSet<_> = mb.iter().collect();
                    return Some(if eb.len() > mb.len() && ms.is_subset(&es) {
                        Diverge::ExtraRows
                    } else if eb.len() < mb.len() && es.is_subset(&ms) {
                        Diverge::MissingRows
                    } else {
                        Diverge::WrongRows
                    });
                }
            } else {
                if er.len() != rows.len() {
                    return Some(if er.len() > rows.len() { Diverge::ExtraRows } else { Diverge::MissingRows });
                }
                // membership in the pool, with multiplicity
                let mut pb: BTreeMap<String, i64> = BTreeMap::new();
                for r in pool {
                    *pb.entry(row_key(r)).or_default() += 1;
                }
                for r in er {
                    let e = pb.entry(row_key(r)).or_default();
                    *e -= 1;
                    if *e < 0 {
                        return Some(Diverge::WrongRows);
                    }
                }
            }
            // order
            if !sorted_on.is_empty() {
                for w in er.windows(2) {
                    let mut o = std::cmp::Ordering::Equal;
                    for (i, d) in sorted_on {
                        if *i >= w[0].len() || *i >= w[1].len() {
                            return Some(Diverge::WrongRows);
                        }
                        o = order_cmp(&w[0][*i], &w[1][*i]);
                        if *d {
                            o = o.reverse();
                        }
                        if o != std::cmp::Ordering::Equal {
                            break;
                        }
                    }
                    if o == std::cmp::Ordering::Greater {
                        return Some(Diverge::WrongOrder);
                    }
                }
            }
            None
        }
        _ => Some(Diverge::WrongKind),
    }
}
