//! C19 — values compare, hash, cast and round-trip consistently. Law checks over boundary grids (all pairs and
//! triples, exhaustive) and random values, with mathematical comparison done in exact integer / rational arithmetic
//! by the harness; plus an SQL leg: ORDER BY / DISTINCT / GROUP BY / IN / indexed lookup on single-column tables
//! holding the same values must agree with each other and with the exact order.
use crate::dbx::*;
use crate::json::J;
use crate::report;
use crate::rng::{Rng, fnv};
use axmosdb::*;
use std::cmp::Ordering;
use std::collections::hash_map::DefaultHasher;
use std::hash::{Hash, Hasher};

fn h(v: &DataType) -> u64 {
    let mut s = DefaultHasher::new();
    v.hash(&mut s);
    s.finish()
}

fn tname(v: &DataType) -> &'static str {
    match v {
        DataType::Null => "Null",
        DataType::Bool(_) => "Bool",
        DataType::Int(_) => "Int",
        DataType::BigInt(_) => "BigInt",
        DataType::UInt(_) => "UInt",
        DataType::BigUInt(_) => "BigUInt",
        DataType::Float(_) => "Float",
        DataType::Double(_) => "Double",
        DataType::Blob(_) => "Text",
    }
}

/// Exact value of a numeric as (is_nan, sign/infinite, rational) — compared exactly.
#[derive(Clone, Debug, PartialEq)]
enum Exact {
    NaN,
    NegInf,
    PosInf,
    /// mantissa * 2^exp
    Fin(i128, i32),
}

fn exact_f64(f: f64) -> Exact {
    if f.is_nan() {
        return Exact::NaN;
    }
    if f.is_infinite() {
        return if f > 0.0 { Exact::PosInf } else { Exact::NegInf };
    }
    if f == 0.0 {
        return Exact::Fin(0, 0);
    }
    let bits = f.to_bits();
    let sign: i128 = if bits >> 63 == 1 { -1 } else { 1 };
    let e = ((bits >> 52) & 0x7ff) as i32;
    let m = (bits & 0xf_ffff_ffff_ffff) as i128;
    let (m, e) = if e == 0 { (m, -1074) } else { (m | (1 << 52), e - 1075) };
    Exact::Fin(sign * m, e)
}

fn exact(v: &DataType) -> Option<Exact> {
    Some(match v {
        DataType::Int(x) => Exact::Fin(x.0 as i128, 0),
        DataType::BigInt(x) => Exact::Fin(x.0 as i128, 0),
        DataType::UInt(x) => Exact::Fin(x.0 as i128, 0),
        DataType::BigUInt(x) => Exact::Fin(x.0 as i128, 0),
        DataType::Float(x) => exact_f64(x.0 as f64),
        DataType::Double(x) => exact_f64(x.0),
        _ => return None,
    })
}

fn cmp_exact(a: &Exact, b: &Exact) -> Option<Ordering> {
    use Exact::*;
    Some(match (a, b) {
        (NaN, _) | (_, NaN) => return None,
        (NegInf, NegInf) | (PosInf, PosInf) => Ordering::Equal,
        (NegInf, _) | (_, PosInf) => Ordering::Less,
        (PosInf, _) | (_, NegInf) => Ordering::Greater,
        (Fin(m1, e1), Fin(m2, e2)) => {
            // compare m1*2^e1 with m2*2^e2 exactly: signs first, then align through big shifts using f64-free logic
            let s1 = m1.signum();
            let s2 = m2.signum();
            if s1 != s2 {
                return Some(s1.cmp(&s2));
            }
            if s1 == 0 {
                return Some(Ordering::Equal);
            }
            // magnitudes: compare bit lengths + exponents, then shift the smaller exponent side
            let (a1, a2) = (m1.unsigned_abs(), m2.unsigned_abs());
            let l1 = 128 - a1.leading_zeros() as i32 + e1;
            let l2 = 128 - a2.leading_zeros() as i32 + e2;
            let mag = if l1 != l2 {
                l1.cmp(&l2)
            } else {
                // same magnitude class: align to the smaller exponent (difference < 128 because bit lengths are equal)
                let emin = *e1.min(e2);
                let x1 = a1 << (e1 - emin).min(120) as u32;
                let x2 = a2 << (e2 - emin).min(120) as u32;
                x1.cmp(&x2)
            };
            if s1 > 0 { mag } else { mag.reverse() }
        }
    })
}

pub fn grid() -> Vec<DataType> {
    let mut g = vec![DataType::Null, DataType::Bool(crate::c19::b(true)), DataType::Bool(crate::c19::b(false))];
    for x in [i32::MIN, -16777217, -1, 0, 1, 16777216, 16777217, i32::MAX] {
        g.push(DataType::Int(Int32(x)));
    }
    for x in [i64::MIN, -(1i64 << 53) - 1, -(1i64 << 53), -1, 0, 1, (1i64 << 53) - 1, 1i64 << 53, (1i64 << 53) + 1, i64::MAX - 1, i64::MAX] {
        g.push(DataType::BigInt(Int64(x)));
    }
    for x in [0u32, 1, 16777217, u32::MAX] {
        g.push(DataType::UInt(UInt32(x)));
    }
    for x in [0u64, 1, 1u64 << 53, (1u64 << 53) + 1, 1u64 << 63, u64::MAX - 1, u64::MAX] {
        g.push(DataType::BigUInt(UInt64(x)));
    }
    for x in [f32::NEG_INFINITY, -1.5, -0.0, 0.0, f32::MIN_POSITIVE / 2.0, 1.5, 16777216.0, f32::INFINITY, f32::NAN] {
        g.push(DataType::Float(Float32(x)));
    }
    for x in [f64::NEG_INFINITY, -1.5, -0.0, 0.0, 5e-324, 1.5, 9007199254740992.0, 9007199254740994.0, 9.223372036854775807e18, 1.8446744073709552e19, f64::INFINITY, f64::NAN] {
        g.push(DataType::Double(Float64(x)));
    }
    for s in ["", "a", "ab", "a\0", "b", "B", "é", "ab ", " ab"] {
        g.push(DataType::Blob(Blob::from(s)));
    }
    g.push(DataType::Blob(Blob::from("x".repeat(10_000).as_str())));
    g
}

pub fn b(x: bool) -> axmosdb::types::bool::Bool {
    axmosdb::types::bool::Bool(x)
}

fn show(v: &DataType) -> String {
    let s = format!("{:?}", v);
    if s.len() > 80 { format!("{}…", &s[..80]) } else { s }
}

fn viol(law: &str, vals: &[&DataType], detail: String) {
    let mut ts: Vec<&str> = vals.iter().map(|v| tname(v)).collect();
    ts.sort();
    ts.dedup();
    // special-value atoms make the signature say *why*
    let mut atoms: Vec<String> = ts.iter().map(|s| s.to_string()).collect();
    for v in vals {
        match v {
            DataType::Float(f) if f.0.is_nan() => atoms.push("nan".into()),
            DataType::Double(f) if f.0.is_nan() => atoms.push("nan".into()),
            DataType::Float(f) if f.0 == 0.0 => atoms.push("zero".into()),
            DataType::Double(f) if f.0 == 0.0 => atoms.push("zero".into()),
            _ => {}
        }
        if let Some(Exact::Fin(m, e)) = exact(v) {
            if e == 0 && m.unsigned_abs() > (1u128 << 53) {
                atoms.push("beyond-2^53".into());
            }
        }
    }
    atoms.sort();
    atoms.dedup();
    // when a special value explains the case, the signature carries only the special atoms (closed vocabulary);
    // otherwise the type names
    let special: Vec<String> = atoms.iter().filter(|a| ["nan", "zero", "beyond-2^53"].contains(&a.as_str())).cloned().collect();
    let atoms = if special.is_empty() { atoms } else { special };
    report::violation(&format!("C19:{}:[{}]", law, atoms.join(",")), &detail, J::obj().with("kind", "values").with("values", J::Arr(vals.iter().map(|v| J::Str(show(v))).collect())));
}

pub fn check_pair(a: &DataType, bb: &DataType) {
    report::eval(None);
    // symmetry of ==
    if (a == bb) != (bb == a) {
        viol("eq-symmetry", &[a, bb], format!("{} == {} is {} but the reverse is {}", show(a), show(bb), a == bb, bb == a));
    }
    // eq => same hash
    if a == bb && h(a) != h(bb) {
        viol("eq-hash", &[a, bb], format!("{} == {} but their hashes differ", show(a), show(bb)));
    }
    // order antisymmetry and consistency with ==
    let ab = a.partial_cmp(bb);
    let ba = bb.partial_cmp(a);
    if ab.map(|o| o.reverse()) != ba {
        viol("ord-antisymmetry", &[a, bb], format!("cmp({}, {}) = {:?} but the reverse is {:?}", show(a), show(bb), ab, ba));
    }
    if let Some(o) = ab {
        if (o == Ordering::Equal) != (a == bb) {
            viol("ord-eq-consistency", &[a, bb], format!("cmp({}, {}) = {:?} but == is {}", show(a), show(bb), o, a == bb));
        }
    }
    // totality inside one type (non-NULL)
    if tname(a) == tname(bb) && !a.is_null() && ab.is_none() {
        viol("ord-totality", &[a, bb], format!("cmp({}, {}) is None inside one type", show(a), show(bb)));
    }
    // a cast between integer kinds either fails or keeps the mathematical value (no wrap-around, no clamping)
    let is_int = |v: &DataType| matches!(v, DataType::Int(_) | DataType::BigInt(_) | DataType::UInt(_) | DataType::BigUInt(_));
    if is_int(a) && is_int(bb) && tname(a) != tname(bb) {
        if let Ok(c) = a.try_cast(bb.kind()) {
            report::count("cross_kind_integer_casts_checked", 1);
            if let (Some(x), Some(y)) = (exact(a), exact(&c)) {
                if cmp_exact(&x, &y) != Some(Ordering::Equal) || tname(&c) != tname(bb) {
                    viol("cast-changes-value", &[a, bb], format!("cast({}, kind of {}) = {}", show(a), show(bb), show(&c)));
                }
            }
        } else {
            report::count("cross_kind_integer_casts_refused", 1);
        }
    }
    // numeric comparison agrees with the mathematical value
    if let (Some(x), Some(y)) = (exact(a), exact(bb)) {
        let m = cmp_exact(&x, &y);
        if let Some(mo) = m {
            if ab != Some(mo) {
                viol("numeric-math-order", &[a, bb], format!("cmp({}, {}) = {:?} but mathematically {:?}", show(a), show(bb), ab, mo));
            }
            if (a == bb) != (mo == Ordering::Equal) {
                viol("numeric-math-eq", &[a, bb], format!("{} == {} is {} but mathematically {:?}", show(a), show(bb), a == bb, mo));
            }
        }
    }
}

pub fn check_single(v: &DataType) {
    report::eval(Some(fnv(format!("{:?}", v).as_bytes())));
    if !(v == v) {
        viol("eq-reflexive", &[v], format!("{} != itself", show(v)));
    }
    if !v.is_null() {
        // round trip through the storage encoding
        match v.serialize() {
            Ok(bytes) => match v.kind().deserialize(&bytes, 0) {
                Ok((r, _n)) => match r.to_owned() {
                    Some(back) => {
                        if format!("{:?}", back) != format!("{:?}", v) {
                            viol("roundtrip", &[v], format!("{} stored then loaded is {}", show(v), show(&back)));
                        }
                    }
                    None => viol("roundtrip", &[v], "to_owned returned None".into()),
                },
                Err(e) => viol("roundtrip", &[v], format!("deserialize failed: {}", e)),
            },
            Err(e) => viol("roundtrip", &[v], format!("serialize failed: {}", e)),
        }
        // cast to its own kind is the identity
        match v.try_cast(v.kind()) {
            Ok(c) => {
                if format!("{:?}", c) != format!("{:?}", v) {
                    viol("cast-identity", &[v], format!("cast({}, own kind) = {}", show(v), show(&c)));
                }
            }
            Err(e) => viol("cast-identity", &[v], format!("cast to own kind failed: {}", e)),
        }
    }
}

pub fn check_triple(a: &DataType, bb: &DataType, c: &DataType) {
    report::eval(None);
    if a == bb && bb == c && !(a == c) {
        viol("eq-transitivity", &[a, bb, c], format!("{} == {} == {} but first != last", show(a), show(bb), show(c)));
    }
    if let (Some(Ordering::Less), Some(Ordering::Less)) = (a.partial_cmp(bb), bb.partial_cmp(c)) {
        if a.partial_cmp(c) != Some(Ordering::Less) {
            viol("ord-transitivity", &[a, bb, c], format!("{} < {} < {} but cmp(first,last) = {:?}", show(a), show(bb), show(c), a.partial_cmp(c)));
        }
    }
}

fn random_value(r: &mut Rng) -> DataType {
    match r.below(8) {
        0 => DataType::Int(Int32(r.next_u64() as i32)),
        1 => DataType::BigInt(Int64(r.next_u64() as i64)),
        2 => DataType::UInt(UInt32(r.next_u64() as u32)),
        3 => DataType::BigUInt(UInt64(r.next_u64())),
        4 => DataType::Float(Float32(f32::from_bits(r.next_u64() as u32))),
        5 => DataType::Double(Float64(f64::from_bits(r.next_u64()))),
        6 => DataType::BigInt(Int64((1i64 << 53) + r.range(-3, 3))),
        _ => {
            let n = r.range(0, 12) as usize;
            let s: String = (0..n).map(|_| *r.pick(&['a', 'b', 'A', ' ', 'z', 'é', '0'])).collect();
            DataType::Blob(Blob::from(s.as_str()))
        }
    }
}

// ---------------------------------------------------------------------------------------------
// SQL leg

fn sql_leg(r: &mut Rng) {
    // integers well inside the f64-exact range, text, and doubles without NaN/-0.0: the clean stratum in which
    // ORDER BY, DISTINCT, GROUP BY, IN and the unique index must agree with each other and with the exact order
    for kind in ["BIGINT", "INT", "TEXT", "DOUBLE"] {
        let db = Dbx::create(default_cfg());
        let unique = r.chance(1, 2);
        let n = r.range(5, 25) as usize;
        let mut vals: Vec<V> = vec![];
        for _ in 0..n {
            let v = match kind {
                "BIGINT" => V::I(*r.pick(&[-9007199254740990i64, -5, -1, 0, 1, 2, 7, 1 << 31, 9007199254740980, 42]) as i128 + r.range(0, 3) as i128),
                "INT" => V::I(*r.pick(&[-2147483648i64, -3, 0, 1, 5, 2147483640]) as i128 + r.range(0, 7) as i128),
                "TEXT" => V::T(r.pick(&["", "a", "ab", "abc", "b", "B", "ba", "zz", "a b", "é", "aa", "A"]).to_string()),
                _ => V::F(*r.pick(&[-2.5f64, -1.25, 0.5, 1.5, 1000.5, 3.75, 0.125]) + r.range(0, 3) as f64),
            };
            vals.push(v);
        }
        if unique {
            let mut seen = std::collections::BTreeSet::new();
            vals.retain(|v| seen.insert(v.key()));
        } else if r.chance(1, 2) {
            vals.push(V::Null);
        }
        let ddl = format!("CREATE TABLE g (id BIGINT, x {}{})", kind, if unique { ", UNIQUE(x)" } else { "" });
        if db.exec(&ddl).is_err() {
            report::violation("C19:sql:create-failed:[]", &ddl, J::Null);
            return;
        }
        let rows: Vec<String> = vals.iter().enumerate().map(|(i, v)| format!("({}, {})", i + 1, v.sql())).collect();
        let ins = format!("INSERT INTO g VALUES {}", rows.join(", "));
        let o = db.exec(&ins);
        if o.is_err() {
            report::violation(&format!("C19:sql:insert-failed:[{}]", kind), &format!("{} => {}", ins, o.show()), J::Null);
            continue;
        }
        let case = |q: &str| J::obj().with("kind", "sql-script").with("setup", J::Arr(vec![J::Str(ddl.clone()), J::Str(ins.clone())])).with("stmt", q);
        // exact order of the non-NULL values
        let mut sorted: Vec<V> = vals.iter().filter(|v| !v.is_null()).cloned().collect();
        sorted.sort_by(|a, b| crate::model::cmp_vals(a, b).ok().flatten().unwrap_or(Ordering::Equal));
        let nulls = vals.iter().filter(|v| v.is_null()).count();
        // ORDER BY
        let q = "SELECT x FROM g ORDER BY x";
        report::eval(Some(fnv(format!("{}{}", ins, q).as_bytes())));
        match db.exec(q) {
            Out::Rows(rws) => {
                let got: Vec<String> = rws.iter().map(|r| r[0].key()).collect();
                let mut want: Vec<String> = sorted.iter().map(|v| v.key()).collect();
                want.extend(std::iter::repeat("N".to_string()).take(nulls));
                if got != want {
                    report::violation(&format!("C19:sql-order-by:[{}]", kind), &format!("ORDER BY returned {:?}, exact order is {:?}", got, want), case(q));
                }
            }
            o => report::violation(&format!("C19:sql-order-by-error:[{}]", kind), &o.show(), case(q)),
        }
        // DISTINCT and GROUP BY classes
        let mut classes: Vec<String> = vals.iter().map(|v| v.key()).collect();
        classes.sort();
        classes.dedup();
        for q in ["SELECT DISTINCT x FROM g", "SELECT x, COUNT(*) FROM g GROUP BY x"] {
            report::eval(Some(fnv(format!("{}{}", ins, q).as_bytes())));
            match db.exec(q) {
                Out::Rows(rws) => {
                    let mut got: Vec<String> = rws.iter().map(|r| r[0].key()).collect();
                    got.sort();
                    if got != classes {
                        report::violation(&format!("C19:sql-grouping:[{}]", kind), &format!("{} gives classes {:?}, exact equality classes are {:?}", q, got, classes), case(q));
                    }
                }
                o => report::violation(&format!("C19:sql-grouping-error:[{}]", kind), &o.show(), case(q)),
            }
        }
        // point lookups (through the unique index when there is one) and IN membership
        for v in sorted.iter().take(6) {
            let want = vals.iter().filter(|w| w.key() == v.key()).count();
            for q in [format!("SELECT id FROM g WHERE x = {}", v.sql()), format!("SELECT id FROM g WHERE x IN ({})", v.sql())] {
                report::eval(Some(fnv(format!("{}{}", ins, q).as_bytes())));
                match db.exec(&q) {
                    Out::Rows(rws) if rws.len() == want => {}
                    o => report::violation(&format!("C19:sql-lookup:[{}{}]", kind, if unique { ",unique-index" } else { "" }), &format!("{} => {} but {} rows hold that value", q, o.show(), want), case(&q)),
                }
            }
        }
        report::count(&format!("sql_tables.{}", kind), 1);
    }
}

pub fn run(seed: u64, tier: &str, shard: u64, nshards: u64) {
    let g = grid();
    // exhaustive singles / pairs / triples on the grid, split over shards by the first index
    for (i, a) in g.iter().enumerate() {
        // the interpreter tier checks pairs of the grid only (64^3 triples would take hours under Miri)
        if (i as u64) % nshards != shard % nshards {
            continue;
        }
        check_single(a);
        for bb in g.iter() {
            check_pair(a, bb);
            if tier == "miri" {
                continue;
            }
            for c in g.iter() {
                check_triple(a, bb, c);
            }
        }
    }
    report::count("grid_values", g.len() as i64);
    report::count("grid_pairs_checked", 0);
    // random values
    let n = if tier == "thorough" { 400000 } else if tier == "miri" { 150 } else { 20000 };
    let mut r = Rng::new(seed ^ shard.wrapping_mul(0xC19C_19C1_9C19_C19C));
    for _ in 0..n {
        let a = random_value(&mut r);
        let bb = if r.chance(1, 4) { a.clone() } else { random_value(&mut r) };
        let c = random_value(&mut r);
        check_single(&a);
        check_pair(&a, &bb);
        check_triple(&a, &bb, &c);
    }
    let m = if tier == "thorough" { 400 } else if tier == "miri" { 0 } else { 25 }; // the SQL leg needs files (O_DIRECT): not under Miri
    for _ in 0..m {
        report::arm("C19 sql leg", 120);
        sql_leg(&mut r);
        report::disarm();
    }
    report::sample(3, || J::obj().with("grid_size", g.len()).with("example_values", J::Arr(g.iter().take(6).map(|v| J::Str(show(v))).collect())).with("laws", "eq reflexive/symmetric/transitive, eq=>hash, order antisymmetric/transitive/total per type, consistent with ==, numeric order/eq = mathematical, store/load identity, cast-to-own-kind identity; SQL: ORDER BY / DISTINCT / GROUP BY / = / IN / unique index"));
}
