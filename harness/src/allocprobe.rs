//! Counting allocator (feature `sysalloc` only: the engine then does not install jemalloc, so the harness can own
//! the global allocator). Tracks the largest single allocation request since `reset()`; requests above 64 GiB are
//! refused (returned as allocation failure) so that the machine is never actually asked for them.
use std::alloc::{GlobalAlloc, Layout, System};
use std::sync::atomic::{AtomicUsize, Ordering};

pub static MAXREQ: AtomicUsize = AtomicUsize::new(0);
pub static CUR: AtomicUsize = AtomicUsize::new(0);
pub static PEAK: AtomicUsize = AtomicUsize::new(0);

pub struct Counting;

unsafe impl GlobalAlloc for Counting {
    unsafe fn alloc(&self, l: Layout) -> *mut u8 {
        MAXREQ.fetch_max(l.size(), Ordering::Relaxed);
        if l.size() > (64usize << 30) {
            return std::ptr::null_mut();
        }
        let p = unsafe { System.alloc(l) };
        if !p.is_null() {
            let c = CUR.fetch_add(l.size(), Ordering::Relaxed) + l.size();
            PEAK.fetch_max(c, Ordering::Relaxed);
        }
        p
    }
    unsafe fn dealloc(&self, p: *mut u8, l: Layout) {
        CUR.fetch_sub(l.size(), Ordering::Relaxed);
        unsafe { System.dealloc(p, l) }
    }
    unsafe fn realloc(&self, p: *mut u8, l: Layout, new: usize) -> *mut u8 {
        MAXREQ.fetch_max(new, Ordering::Relaxed);
        if new > (64usize << 30) {
            return std::ptr::null_mut();
        }
        let q = unsafe { System.realloc(p, l, new) };
        if !q.is_null() {
            if new >= l.size() {
                let c = CUR.fetch_add(new - l.size(), Ordering::Relaxed) + new - l.size();
                PEAK.fetch_max(c, Ordering::Relaxed);
            } else {
                CUR.fetch_sub(l.size() - new, Ordering::Relaxed);
            }
        }
        q
    }
}

#[cfg(feature = "sysalloc")]
pub const ACTIVE: bool = true;
#[cfg(not(feature = "sysalloc"))]
pub const ACTIVE: bool = false;

pub fn reset() {
    MAXREQ.store(0, Ordering::Relaxed);
    PEAK.store(CUR.load(Ordering::Relaxed), Ordering::Relaxed);
}

pub fn max_request() -> usize {
    MAXREQ.load(Ordering::Relaxed)
}
