//! C20 server leg — the real `axmos_server` binary over loopback TCP. A twin database opened in-process executes
//! the same statements; what the server sends back must be exactly what the library returns, rendered by the rule
//! of `query_result_to_response` (column names, `to_string()` of every value). Hostile connections (random bytes,
//! valid header + random tail, truncated frames, extreme length prefixes, bit-flipped valid frames) must end with the
//! connection closed or a well-formed error frame, never with a dead, stuck or bloated server: after each of them
//! a Ping on the long-lived connection must be answered, the process must be alive and its resident set bounded.
use crate::dbx::*;
use crate::json::J;
use crate::report;
use crate::rng::{Rng, fnv};
use axmosdb::runtime::QueryResult;
use axmosdb::tcp::{Request, Response, recv_response, send_request};
use axmosdb::Database;
use std::io::{Read, Write};
use std::net::{Shutdown, TcpListener, TcpStream};
use std::process::{Child, Command, Stdio};
use std::time::{Duration, Instant};

fn free_port() -> u16 {
    TcpListener::bind("127.0.0.1:0").and_then(|l| l.local_addr()).map(|a| a.port()).unwrap_or(0)
}

fn rss_kib(pid: u32) -> i64 {
    std::fs::read_to_string(format!("/proc/{}/status", pid))
        .ok()
        .and_then(|s| s.lines().find(|l| l.starts_with("VmRSS:")).and_then(|l| l.split_whitespace().nth(1).and_then(|x| x.parse().ok())))
        .unwrap_or(-1)
}

fn connect(port: u16, wait: Duration) -> Option<TcpStream> {
    let t0 = Instant::now();
    while t0.elapsed() < wait {
        if let Ok(s) = TcpStream::connect(("127.0.0.1", port)) {
            let _ = s.set_read_timeout(Some(Duration::from_secs(20)));
            let _ = s.set_write_timeout(Some(Duration::from_secs(20)));
            let _ = s.set_nodelay(true);
            return Some(s);
        }
        std::thread::sleep(Duration::from_millis(30));
    }
    None
}

fn render(r: Result<QueryResult, String>) -> String {
    match r {
        Ok(QueryResult::Rows(rows)) => {
            let cols: Vec<String> = if rows.is_empty() { vec![] } else { (0..rows.num_columns()).map(|i| rows.column(i).map(|c| c.to_string()).unwrap_or_default()).collect() };
            let mut data: Vec<String> = rows.iterrows().map(|row| row.iter().map(|v| v.to_string()).collect::<Vec<_>>().join("\u{1f}")).collect();
            data.sort();
            format!("ROWS cols={:?} n={} {}", cols, data.len(), fnv(data.join("\u{1e}").as_bytes()))
        }
        Ok(QueryResult::RowsAffected(n)) => format!("AFFECTED {}", n),
        Ok(QueryResult::Ddl(_)) => "DDL".into(),
        Err(_) => "ERROR".into(),
    }
}

fn render_resp(r: &Response) -> String {
    match r {
        Response::Rows { columns, data } => {
            let mut d: Vec<String> = data.iter().map(|row| row.join("\u{1f}")).collect();
            d.sort();
            format!("ROWS cols={:?} n={} {}", columns, d.len(), fnv(d.join("\u{1e}").as_bytes()))
        }
        Response::RowsAffected(n) => format!("AFFECTED {}", n),
        Response::Ddl(_) => "DDL".into(),
        Response::Error(_) => "ERROR".into(),
        other => format!("OTHER {:?}", other).chars().take(60).collect(),
    }
}

struct Srv {
    child: Child,
    port: u16,
    dir: std::path::PathBuf,
    base_rss: i64,
}

fn viol(kind: &str, detail: String, case: J) {
    report::violation(&format!("C20:server:{}", kind), &detail, case);
}

fn start(bin: &str) -> Option<Srv> {
    // Several workers (and other runs on this machine) start servers at the same time: a port found free a moment ago
    // may be taken when the server binds. A server that cannot bind exits at once, so "connect works AND our child is
    // still alive a little later" identifies our own server; otherwise try another port.
    for attempt in 0..12u32 {
        let dir = fresh_dir("srv");
        let port = if attempt < 6 { free_port() } else { 20000 + ((std::process::id().wrapping_mul(37).wrapping_add(attempt * 101)) % 20000) as u16 };
        let child = Command::new(bin)
            .args(["-p", &port.to_string(), "-f", dir.join(DB_FILE).to_str().unwrap(), "--pool-size", "8"])
            .stdin(Stdio::null())
            .stdout(Stdio::null())
            .stderr(match std::env::var("AXV_SERVER_LOG") {
                Ok(p) => std::fs::OpenOptions::new().create(true).append(true).open(p).map(Stdio::from).unwrap_or_else(|_| Stdio::null()),
                Err(_) => Stdio::null(),
            })
            .spawn()
            .ok()?;
        let mut s = Srv { child, port, dir, base_rss: 0 };
        let up = connect(port, Duration::from_secs(15)).is_some();
        std::thread::sleep(Duration::from_millis(300));
        if up && alive(&mut s) {
            s.base_rss = rss_kib(s.child.id());
            return Some(s);
        }
        report::count("server.start_retries(port taken)", 1);
        let _ = s.child.kill();
        let _ = s.child.wait();
        rm_dir(&s.dir);
    }
    None
}

fn alive(s: &mut Srv) -> bool {
    matches!(s.child.try_wait(), Ok(None))
}

fn ask(conn: &mut TcpStream, q: &Request) -> Result<Response, String> {
    send_request(conn, q).map_err(|e| format!("send: {}", e))?;
    conn.flush().ok();
    recv_response(conn).map_err(|e| format!("recv: {}", e))
}

const TEXTS: &[&str] = &["", "a", "abc", "ñandú", "漢字かな", "über straße", "a b", "tab\there", "quote\"double", "emoji 🚀", "zzzzzzzzzzzzzzzzzzzzzzzzzzzzzzzzzzzzzzzz"];

fn sql_text(r: &mut Rng, long_texts: bool) -> String {
    if long_texts && r.chance(1, 12) {
        let n = *r.pick(&[200usize, 1000, 3000]);
        return std::iter::repeat(*r.pick(&['x', 'é', '字'])).take(n).collect();
    }
    r.pick(TEXTS).to_string()
}

pub fn run(seed: u64, tier: &str, shard: u64) {
    let Ok(bin) = std::env::var("AXV_SERVER_BIN") else {
        report::inconclusive("AXV_SERVER_BIN not set: the server leg did not run");
        return;
    };
    let rounds = if tier == "thorough" { 12 } else { 2 };
    let mut master = Rng::new(seed ^ shard.wrapping_mul(0xC205_C205_C205_C205));
    for round in 0..rounds {
        let mut r = master.fork(round);
        report::about_to("server-round", &format!("seed {} shard {} round {}", seed, shard, round));
        report::arm("C20 server round", 600);
        let Some(mut srv) = start(&bin) else {
            report::inconclusive("the server did not come up within 15 s (port taken or start failure)");
            report::disarm();
            continue;
        };
        one_round(&mut r, &mut srv, tier);
        // orderly shutdown
        if alive(&mut srv) {
            if let Some(mut c) = connect(srv.port, Duration::from_secs(5)) {
                match ask(&mut c, &Request::Shutdown) {
                    Ok(Response::ShuttingDown) => report::count("server.shutdown_acknowledged", 1),
                    other => viol("shutdown-not-acknowledged", format!("{:?}", other.map(|x| render_resp(&x))), J::obj()),
                }
            }
            let t0 = Instant::now();
            while alive(&mut srv) && t0.elapsed() < Duration::from_secs(20) {
                std::thread::sleep(Duration::from_millis(50));
            }
            if alive(&mut srv) {
                viol("shutdown-hangs", "the server did not exit within 20 s after SHUTDOWN".into(), J::obj());
            }
        }
        let _ = srv.child.kill();
        let _ = srv.child.wait();
        rm_dir(&srv.dir);
        report::disarm();
        report::done_with();
    }
}

fn one_round(r: &mut Rng, srv: &mut Srv, tier: &str) {
    let Some(mut conn) = connect(srv.port, Duration::from_secs(5)) else {
        viol("connect-failed", "second connection refused".into(), J::obj());
        return;
    };
    let twin_dir = fresh_dir("twin");
    let twin = match Database::create(twin_dir.join(DB_FILE), default_cfg()) {
        Ok(d) => d,
        Err(e) => {
            report::inconclusive(&format!("twin create failed: {}", e));
            return;
        }
    };
    let mut script: Vec<String> = vec![];
    let mut check = |conn: &mut TcpStream, sql: String, script: &mut Vec<String>| -> bool {
        tick();
        let want = render(twin.execute(&sql).map_err(|e| e.to_string()));
        script.push(sql.chars().take(120).collect());
        match ask(conn, &Request::Sql(sql.clone())) {
            Ok(resp) => {
                let got = render_resp(&resp);
                report::eval(Some(fnv(sql.as_bytes())));
                report::count("server.sql_responses_checked", 1);
                if let Response::Rows { data, .. } = &resp {
                    report::count("server.rows_received", data.len() as i64);
                }
                if got != want {
                    viol("response-differs-from-library", format!("`{}`: server sent {} but the library returns {}", sql.chars().take(100).collect::<String>(), got, want), J::obj().with("script", J::Arr(script.iter().map(|s| J::Str(s.clone())).collect())));
                    return false;
                }
                true
            }
            Err(e) => {
                viol("no-response", format!("`{}`: {}", sql.chars().take(100).collect::<String>(), e), J::obj().with("script", J::Arr(script.iter().map(|s| J::Str(s.clone())).collect())));
                false
            }
        }
    };
    if !check(&mut conn, "CREATE TABLE w (id BIGINT, a INT, d DOUBLE, s TEXT)".into(), &mut script) {
        return;
    }
    // table sizes stay inside what the storage layer of the unchanged tree survives (tables of more than ~1000 rows with
    // texts of very different lengths hit the open B+tree findings of C10 and make server and twin diverge on their own)
    let _ = tier;
    let nrows = *r.pick(&[20usize, 120, 600]);
    // long strings travel as query literals, not as stored values (cells of a few hundred bytes and more are open storage findings)
    let long_texts = false;
    let mut id = 0;
    while id < nrows {
        let k = r.range(1, 8) as usize;
        let mut vals = vec![];
        for _ in 0..k {
            id += 1;
            let a = if r.chance(1, 6) { "NULL".to_string() } else { r.range(-1000, 1000).to_string() };
            let d = if r.chance(1, 6) { "NULL".to_string() } else { format!("{}.{}", r.range(-500, 500), r.range(0, 99)) };
            let s = if r.chance(1, 8) { "NULL".to_string() } else { format!("'{}'", sql_text(r, long_texts).replace('\'', "")) };
            vals.push(format!("({}, {}, {}, {})", id, a, d, s));
        }
        if !check(&mut conn, format!("INSERT INTO w VALUES {}", vals.join(", ")), &mut script) {
            return;
        }
    }
    let long_lit: String = std::iter::repeat(*r.pick(&['x', 'é', '字'])).take(*r.pick(&[200usize, 3000, 60000])).collect();
    let queries = [
        format!("SELECT '{}', id FROM w WHERE id + 0 < 4", long_lit),
        "SELECT * FROM w".to_string(),
        "SELECT id, s FROM w WHERE a IS NULL".to_string(),
        "SELECT s FROM w WHERE id + 0 = 3".to_string(),
        "SELECT COUNT(*) FROM w".to_string(),
        "SELECT id FROM w WHERE 1 = 0".to_string(),
        "SELECT d, a FROM w WHERE a > 0 ORDER BY id LIMIT 7".to_string(),
        "SELECT * FROM no_such_table".to_string(),
        "SELEC nonsense".to_string(),
        "INSERT INTO w VALUES (1, 2)".to_string(),
        // no DELETE: delete-then-insert is an open storage finding (corpus/C10/segv_insert_after_delete_min.sql) and adds nothing to the wire
        "SELECT id FROM w WHERE id + 0 = 2".to_string(),
        "SELECT * FROM w".to_string(),
    ];
    for q in queries {
        if !check(&mut conn, q, &mut script) {
            return;
        }
    }
    // long strings in responses: a second, tiny table (two rows) so that the storage layer stays inside its envelope
    for q in [
        "CREATE TABLE wl (id BIGINT, s TEXT)".to_string(),
        format!("INSERT INTO wl VALUES (1, '{}')", std::iter::repeat('é').take(200).collect::<String>()),
        format!("INSERT INTO wl VALUES (2, '{}')", std::iter::repeat(*r.pick(&['x', '字'])).take(*r.pick(&[900usize, 3000])).collect::<String>()),
        "SELECT * FROM wl".to_string(),
        "SELECT s FROM wl WHERE id + 0 = 2".to_string(),
    ] {
        if !check(&mut conn, q, &mut script) {
            return;
        }
    }
    // protocol-level requests
    for (q, want) in [(Request::Ping, "Pong"), (Request::Begin, "SessionStarted"), (Request::Rollback, "SessionEnd"), (Request::Commit, "Error"), (Request::Explain("SELECT * FROM w".into()), "Explain")] {
        match ask(&mut conn, &q) {
            Ok(resp) => {
                report::count("server.protocol_requests_checked", 1);
                if !format!("{:?}", resp).starts_with(want) {
                    viol("unexpected-response-kind", format!("{:?} answered with {}", q, format!("{:?}", resp).chars().take(80).collect::<String>()), J::obj());
                    return;
                }
            }
            Err(e) => {
                viol("no-response", format!("{:?}: {}", q, e), J::obj());
                return;
            }
        }
    }
    // a transaction through the wire: rolled-back rows must not show, committed ones must
    let steps: Vec<(Request, &str)> = vec![
        (Request::Begin, "SessionStarted"),
        (Request::Sql("INSERT INTO w VALUES (900001, 1, 1.5, 'in txn')".into()), "RowsAffected"),
        (Request::Rollback, "SessionEnd"),
    ];
    for (q, want) in steps {
        match ask(&mut conn, &q) {
            Ok(resp) if format!("{:?}", resp).starts_with(want) => {}
            other => {
                viol("transaction-over-wire", format!("{:?} => {:?}", q, other.map(|x| format!("{:?}", x).chars().take(60).collect::<String>())), J::obj());
                return;
            }
        }
    }
    if !check(&mut conn, "SELECT id FROM w WHERE id + 0 = 900001".into(), &mut script) {
        return;
    }
    // hostile connections
    let sample_frame = {
        let mut v = vec![];
        let _ = axmosdb::tcp::write_message(&mut v, &Request::Sql("SELECT * FROM w".into()).to_bytes());
        v
    };
    let n_garbage = if tier == "thorough" { 150 } else { 40 };
    for i in 0..n_garbage {
        tick();
        let (label, bytes): (&str, Vec<u8>) = match r.below(7) {
            0 => ("random-bytes", (0..r.range(1, 200)).map(|_| r.below(256) as u8).collect()),
            1 => {
                let n = r.range(1, 300) as usize;
                let mut v = (n as u32).to_le_bytes().to_vec();
                v.extend((0..n).map(|_| r.below(256) as u8));
                ("valid-header-random-body", v)
            }
            2 => {
                let mut v = sample_frame.clone();
                v.truncate(r.range(1, v.len() as i64 - 1) as usize);
                ("truncated-frame", v)
            }
            3 => {
                let len: u32 = *r.pick(&[u32::MAX, 0x7fff_ffff, 16 * 1024 * 1024 + 1, 0x0100_0000]);
                let mut v = len.to_le_bytes().to_vec();
                v.extend((0..r.range(0, 64)).map(|_| r.below(256) as u8));
                ("extreme-length-prefix", v)
            }
            4 => {
                let mut v = sample_frame.clone();
                let at = r.usize(v.len());
                v[at] ^= 1 << r.below(8);
                ("bit-flipped-frame", v)
            }
            5 => ("empty-frame", 0u32.to_le_bytes().to_vec()),
            _ => {
                // a frame whose string length field lies
                let mut body = vec![1u8, 0x03];
                body.extend((*r.pick(&[u32::MAX, 1 << 30, 5000])).to_le_bytes());
                body.extend(b"SELECT 1");
                let mut v = (body.len() as u32).to_le_bytes().to_vec();
                v.extend(body);
                ("lying-string-length", v)
            }
        };
        // a "hostile" byte string that happens to be a well-formed administrative request (SHUTDOWN, CLOSE, CREATE, OPEN)
        // is a valid frame, and the server obeying it is correct: such inputs are not sent
        {
            let mut cur = std::io::Cursor::new(&bytes);
            if let Ok(body) = axmosdb::tcp::read_message(&mut cur) {
                if let Ok(req) = Request::from_bytes(&body) {
                    if matches!(req, Request::Shutdown | Request::Close | Request::Create(_) | Request::Open(_)) {
                        report::count("server.hostile_skipped(valid administrative request)", 1);
                        continue;
                    }
                }
            }
        }
        let Some(mut g) = connect(srv.port, Duration::from_secs(5)) else {
            viol("connect-failed", format!("connection {} refused after hostile traffic", i), J::obj());
            return;
        };
        let _ = g.set_read_timeout(Some(Duration::from_secs(8)));
        let _ = g.write_all(&bytes);
        let _ = g.flush();
        let _ = g.shutdown(Shutdown::Write);
        let mut back = vec![];
        let t0 = Instant::now();
        let res = g.read_to_end(&mut back);
        report::count("server.hostile_connections", 1);
        report::count(&format!("server.hostile.{}", label), 1);
        report::eval(Some(fnv(&bytes)));
        match res {
            Ok(_) => {
                // closed; whatever came back must be well-formed frames
                let mut cur = std::io::Cursor::new(&back);
                while (cur.position() as usize) < back.len() {
                    match recv_response(&mut cur) {
                        Ok(_) => report::count("server.hostile_answered_with_frame", 1),
                        Err(e) => {
                            viol("malformed-answer", format!("{}: the server answered {} bytes that do not decode: {}", label, back.len(), e), J::obj().with("input_hex", hex(&bytes)));
                            break;
                        }
                    }
                }
            }
            Err(e) => {
                if t0.elapsed() >= Duration::from_secs(7) {
                    viol("connection-not-closed", format!("{}: 8 s after the client closed its sending side the server still holds the connection ({})", label, e), J::obj().with("input_hex", hex(&bytes)));
                    return;
                }
            }
        }
        // liveness + memory
        if !alive(srv) {
            viol("server-died", format!("{}: the server process exited after this input", label), J::obj().with("input_hex", hex(&bytes)));
            return;
        }
        match ask(&mut conn, &Request::Ping) {
            Ok(Response::Pong) => report::count("server.liveness_pings", 1),
            other => {
                viol("not-live-after-hostile-input", format!("{}: Ping => {:?}", label, other.map(|x| format!("{:?}", x).chars().take(40).collect::<String>())), J::obj().with("input_hex", hex(&bytes)));
                return;
            }
        }
        let rss = rss_kib(srv.child.id());
        report::set_max("max.server_rss_growth_kib", rss - srv.base_rss);
        if rss - srv.base_rss > 400 * 1024 {
            viol("memory-growth", format!("{}: resident set grew by {} KiB", label, rss - srv.base_rss), J::obj().with("input_hex", hex(&bytes)));
            return;
        }
    }
    // the long-lived connection still works and still agrees with the library
    check(&mut conn, "SELECT * FROM w".into(), &mut script);
    drop(twin);
    rm_dir(&twin_dir);
}

fn hex(b: &[u8]) -> String {
    b.iter().take(96).map(|x| format!("{:02x}", x)).collect()
}
