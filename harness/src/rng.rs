//! Deterministic PRNG (SplitMix64) so that every case replays from its seed.
#[derive(Clone, Debug)]
pub struct Rng(pub u64);

impl Rng {
    pub fn new(seed: u64) -> Self {
        Rng(seed ^ 0x9E37_79B9_7F4A_7C15)
    }
    /// Derive an independent stream.
    pub fn fork(&mut self, salt: u64) -> Rng {
        let a = self.next_u64();
        Rng::new(a ^ salt.wrapping_mul(0xD6E8_FEB8_6659_FD93))
    }
    pub fn next_u64(&mut self) -> u64 {
        self.0 = self.0.wrapping_add(0x9E37_79B9_7F4A_7C15);
        let mut z = self.0;
        z = (z ^ (z >> 30)).wrapping_mul(0xBF58_476D_1CE4_E5B9);
        z = (z ^ (z >> 27)).wrapping_mul(0x94D0_49BB_1331_11EB);
        z ^ (z >> 31)
    }
    /// Uniform in 0..n (n > 0).
    pub fn below(&mut self, n: u64) -> u64 {
        if n == 0 {
            return 0;
        }
        self.next_u64() % n
    }
    pub fn usize(&mut self, n: usize) -> usize {
        self.below(n as u64) as usize
    }
    /// Uniform in lo..=hi.
    pub fn range(&mut self, lo: i64, hi: i64) -> i64 {
        if hi <= lo {
            return lo;
        }
        lo + self.below((hi - lo + 1) as u64) as i64
    }
    pub fn chance(&mut self, num: u64, den: u64) -> bool {
        self.below(den) < num
    }
    pub fn pick<'a, T>(&mut self, xs: &'a [T]) -> &'a T {
        &xs[self.usize(xs.len())]
    }
    pub fn shuffle<T>(&mut self, xs: &mut [T]) {
        for i in (1..xs.len()).rev() {
            let j = self.usize(i + 1);
            xs.swap(i, j);
        }
    }
    pub fn f64(&mut self) -> f64 {
        (self.next_u64() >> 11) as f64 / (1u64 << 53) as f64
    }
}

/// FNV-1a 64 for structural hashes of cases.
pub fn fnv(bytes: &[u8]) -> u64 {
    let mut h: u64 = 0xcbf2_9ce4_8422_2325;
    for b in bytes {
        h ^= *b as u64;
        h = h.wrapping_mul(0x0000_0100_0000_01B3);
    }
    h
}
