//! C06 — the chosen plan never changes the answer. Histories on a table with a UNIQUE index (created before or
//! after the data), then batteries of plan-variant pairs that must return the same bag, each also compared with
//! the reference model:
//!   (a) indexable predicate on the key vs the same predicate wrapped so that no index applies (`id + 0`),
//!   (b) ternary-logic partitioning: Q = Q WHERE p  U  Q WHERE NOT p  U  Q WHERE p IS NULL,
//!   (c) join operands swapped (nested-loop forms),
//!   (d) index coherence: for every key of the model (and absent keys) the indexed lookup equals the scan.
//! `EXPLAIN` is called on every variant: a pair whose plan texts are identical is counted as trivial.
use crate::c05::clean_lang;
use crate::dbx::*;
use crate::json::J;
use crate::model::*;
use crate::report;
use crate::rng::{Rng, fnv};
use crate::sqlgen::*;

fn from1(t: &str, alias: Option<&str>) -> FromItem {
    FromItem { table: t.into(), alias: alias.map(|s| s.to_string()), join: JoinKind::Inner, on: None }
}

struct Ctx {
    db: Dbx,
    state: State,
    setup: Vec<String>,
    atoms: Vec<String>,
}

impl Ctx {
    fn fail(&self, oracle: &str, kind: &str, detail: String, variants: Vec<String>) {
        let _ = take_panics();
        report::violation(
            &format!("C06:{}:{}:[{}]", oracle, kind, self.atoms.join(",")),
            &detail,
            J::obj().with("kind", "sql-script").with("setup", J::Arr(self.setup.iter().map(|s| J::Str(s.clone())).collect())).with("variants", J::Arr(variants.into_iter().map(J::Str).collect())),
        );
    }
    fn run(&mut self, st: &Stmt) -> bool {
        let o = self.db.exec(&st.sql());
        let m = self.state.apply(st);
        self.setup.push(st.sql());
        if let Some(d) = compare(&o, &m) {
            self.fail("history", &d.tag(), format!("{} => {}", st.sql(), o.show()), vec![]);
            return false;
        }
        true
    }
    /// several statements in one transaction (execute_batch)
    fn run_batch(&mut self, sts: &[Stmt]) -> bool {
        let sqls: Vec<String> = sts.iter().map(|s| s.sql()).collect();
        let refs: Vec<&str> = sqls.iter().map(|s| s.as_str()).collect();
        let r = self.db.batch(&refs);
        self.setup.push(format!("@batch {}", sqls.join(";;")));
        match r {
            Ok(outs) => {
                for (st, o) in sts.iter().zip(outs.iter()) {
                    let m = self.state.apply(st);
                    if let Some(d) = compare(o, &m) {
                        self.fail("history", &d.tag(), format!("batch {:?} => {}", sqls, o.show()), vec![]);
                        return false;
                    }
                }
                true
            }
            Err(e) => {
                self.fail("history", "batch-failed", format!("batch {:?} => {}", sqls, e), vec![]);
                false
            }
        }
    }
    /// executes a select, compares with the model, returns the bag
    fn q(&mut self, s: &Select, what: &str) -> Option<(Vec<String>, String)> {
        let sql = s.sql(false);
        let o = self.db.exec(&sql);
        let m = self.state.apply(&Stmt::Select(s.clone()));
        if let Some(d) = compare(&o, &m) {
            self.fail("vs-model", &format!("{}:{}", what, d.tag()), format!("{} => {}", sql, o.show()), vec![sql.clone()]);
            return None;
        }
        let plan = self.db.explain(&sql).unwrap_or_else(|e| format!("EXPLAIN failed: {}", e));
        match o {
            Out::Rows(r) => Some((bag(&r), plan)),
            _ => None,
        }
    }
}

pub fn run_case(r: &mut Rng) {
    let lang = clean_lang();
    let mut g = Gen::new(r, &lang);
    // table: id (unique key), 1-3 value columns
    let nc = g.r.range(1, 3) as usize;
    let mut t = g.table("t0", nc);
    for c in t.cols.iter_mut() {
        c.default = None;
        c.not_null = false;
    }
    let index_after = g.r.chance(1, 3);
    t.uniques = if index_after { vec![] } else { vec![vec![0]] };
    let mut cx = Ctx { db: Dbx::create(default_cfg()), state: State::default(), setup: vec![], atoms: vec![] };
    if !cx.run(&Stmt::Create(t.clone())) {
        return;
    }
    // history: inserts (ids are unique, shuffled), deletes by wrapped predicate, optional late index
    let n = *g.r.pick(&[3usize, 8, 20, 40]);
    let mut ids: Vec<i128> = (1..=n as i128).collect();
    g.r.shuffle(&mut ids);
    let rows = g.population(&t, n);
    let mut k = 0;
    while k < n {
        let chunk = g.r.range(1, 6) as usize;
        let mut v = vec![];
        for j in k..(k + chunk).min(n) {
            let mut row = rows[j].clone();
            row[0] = V::I(ids[j]);
            v.push(row.iter().map(|x| Expr::Lit(x.clone())).collect());
        }
        k += chunk;
        if !cx.run(&Stmt::Insert("t0".into(), None, v)) {
            return;
        }
        if g.r.chance(1, 4) {
            let lo = g.r.range(1, n as i64);
            let d = Stmt::Delete("t0".into(), Some(Expr::Between(Box::new(bin(Op::Add, col("id"), lit_i(0))), Box::new(lit_i(lo)), Box::new(lit_i(lo + g.r.range(0, 3))), false)));
            if !cx.run(&d) {
                return;
            }
        }
    }
    if index_after {
        cx.atoms.push("hist.index_after_data".into());
        if !cx.run(&Stmt::CreateIndex("ix_id".into(), "t0".into(), "id".into())) {
            return;
        }
        // more data after the index exists
        let extra = Stmt::Insert("t0".into(), None, vec![t.cols.iter().enumerate().map(|(i, c)| if i == 0 { Expr::Lit(V::I(n as i128 + 5)) } else { Expr::Lit(g.value(c.ty, true)) }).collect()]);
        if !cx.run(&extra) {
            return;
        }
    }
    // replace rows under the same key: DELETE + INSERT of one key inside one transaction, or as two transactions
    if g.r.chance(1, 2) {
        let live: Vec<i128> = cx.state.tables["t0"].rows.iter().filter_map(|r| r[0].as_i()).collect();
        for _ in 0..g.r.range(1, 3) {
            if live.is_empty() {
                break;
            }
            let key = *g.r.pick(&live);
            let del = Stmt::Delete("t0".into(), Some(bin(Op::Eq, bin(Op::Add, col("id"), lit_i(0)), lit_i(key as i64))));
            let ins = Stmt::Insert("t0".into(), None, vec![t.cols.iter().enumerate().map(|(i, c)| if i == 0 { Expr::Lit(V::I(key)) } else { Expr::Lit(g.value(c.ty, true)) }).collect()]);
            if g.r.chance(2, 3) {
                cx.atoms.push("hist.replace_in_one_txn".into());
                report::count("replace_in_one_txn", 1);
                if !cx.run_batch(&[del, ins]) {
                    return;
                }
            } else {
                report::count("replace_in_two_txns", 1);
                if !cx.run(&del) || !cx.run(&ins) {
                    return;
                }
            }
        }
        cx.atoms.sort();
        cx.atoms.dedup();
    }
    let cx_state = cx.state.clone();
    let t_now = cx_state.tables["t0"].clone();
    let scope = Gen::scope_of(&t_now, None);

    // (d) index coherence for every key and a few absent ones
    let mut keys: Vec<i128> = t_now.rows.iter().filter_map(|r| r[0].as_i()).collect();
    keys.extend([0, n as i128 + 1, n as i128 + 9]);
    for key in keys {
        let items = vec![Item::Star];
        let by_index = Select { items: items.clone(), from: vec![from1("t0", None)], wher: Some(bin(Op::Eq, col("id"), lit_i(key as i64))), ..Default::default() };
        let by_scan = Select { items, from: vec![from1("t0", None)], wher: Some(bin(Op::Eq, bin(Op::Add, col("id"), lit_i(0)), lit_i(key as i64))), ..Default::default() };
        let (Some((a, pa)), Some((b, pb))) = (cx.q(&by_index, "index-lookup"), cx.q(&by_scan, "scan-lookup")) else { return };
        let nontrivial = pa != pb && pa.contains("IndexScan");
        report::eval(if nontrivial { Some(fnv(format!("{}|{}", cx.setup.join(";"), key).as_bytes())) } else { None });
        report::count(if nontrivial { "pairs.index_vs_scan.plans_differ" } else { "pairs.index_vs_scan.same_plan" }, 1);
        if a != b {
            cx.fail("index-vs-scan", "lookup-differs", format!("key {}: index path {:?} vs scan path {:?}", key, a, b), vec![by_index.sql(false), by_scan.sql(false)]);
            return;
        }
    }

    // (e) the same battery is run before and after ANALYZE (pass 1 runs with statistics); per-query results of
    // pass 0 and pass 1 are compared through the model (both must equal it)
    for pass in 0..2 {
    if pass == 1 {
        match cx.db.analyze() {
            Ok(()) => {
                cx.setup.push("@analyze".into());
                cx.atoms.push("hist.analyze".into());
                report::count("analyze_runs", 1);
            }
            Err(e) => {
                cx.fail("analyze", "unexpected-error", e, vec![]);
                return;
            }
        }
    }
    // (a) range predicates on the key: indexable form vs wrapped form
    for _ in 0..(if pass == 0 { 8 } else { 5 }) {
        let lo = g.r.range(0, n as i64 + 2);
        let hi = lo + g.r.range(0, 10);
        let forms: Vec<(Expr, Expr)> = vec![
            (bin(Op::Gt, col("id"), lit_i(lo)), bin(Op::Gt, bin(Op::Add, col("id"), lit_i(0)), lit_i(lo))),
            (bin(Op::Ge, col("id"), lit_i(lo)), bin(Op::Ge, bin(Op::Add, col("id"), lit_i(0)), lit_i(lo))),
            (bin(Op::Lt, col("id"), lit_i(hi)), bin(Op::Lt, bin(Op::Add, col("id"), lit_i(0)), lit_i(hi))),
            (bin(Op::Le, col("id"), lit_i(hi)), bin(Op::Le, bin(Op::Add, col("id"), lit_i(0)), lit_i(hi))),
            (
                bin(Op::And, bin(Op::Ge, col("id"), lit_i(lo)), bin(Op::Lt, col("id"), lit_i(hi))),
                bin(Op::And, bin(Op::Ge, bin(Op::Add, col("id"), lit_i(0)), lit_i(lo)), bin(Op::Lt, bin(Op::Add, col("id"), lit_i(0)), lit_i(hi))),
            ),
            (
                Expr::Between(Box::new(col("id")), Box::new(lit_i(lo)), Box::new(lit_i(hi)), false),
                Expr::Between(Box::new(bin(Op::Add, col("id"), lit_i(0))), Box::new(lit_i(lo)), Box::new(lit_i(hi)), false),
            ),
        ];
        let (pi, ps) = g.r.pick(&forms).clone();
        // optionally AND a residual predicate on another column to both
        let (pi, ps) = if g.r.chance(1, 2) {
            let extra = g.pred(&scope, 1);
            (bin(Op::And, pi, extra.clone()), bin(Op::And, ps, extra))
        } else {
            (pi, ps)
        };
        let items = vec![Item::Expr(col("id")), Item::Expr(Expr::Col(None, t_now.cols[t_now.cols.len() - 1].name.clone()))];
        let qi = Select { items: items.clone(), from: vec![from1("t0", None)], wher: Some(pi), ..Default::default() };
        let qs = Select { items, from: vec![from1("t0", None)], wher: Some(ps), ..Default::default() };
        let (Some((a, pa)), Some((b, pb))) = (cx.q(&qi, "indexable-range"), cx.q(&qs, "wrapped-range")) else { return };
        let nontrivial = pa != pb;
        report::eval(if nontrivial { Some(fnv(format!("{}|{}", cx.setup.join(";"), qi.sql(false)).as_bytes())) } else { None });
        report::count(if nontrivial { "pairs.range.plans_differ" } else { "pairs.range.same_plan" }, 1);
        if pa.contains("IndexScan") {
            report::count("plans.index_scan_seen", 1);
        }
        if a != b {
            cx.fail("index-vs-scan", "range-differs", format!("{:?} vs {:?}", a.len(), b.len()), vec![qi.sql(false), qs.sql(false)]);
            return;
        }
    }

    // (b) TLP partitioning on random clean predicates
    for _ in 0..6 {
        let p = g.pred(&scope, 2);
        let items = vec![Item::Star];
        let base = Select { items: items.clone(), from: vec![from1("t0", None)], ..Default::default() };
        let qt = Select { wher: Some(p.clone()), ..base.clone() };
        let qf = Select { wher: Some(Expr::Not(Box::new(p.clone()))), ..base.clone() };
        let qn = Select { wher: Some(Expr::IsNull(Box::new(p.clone()), false)), ..base.clone() };
        let (Some((all, _)), Some((a, _)), Some((b, _)), Some((c, _))) = (cx.q(&base, "tlp-all"), cx.q(&qt, "tlp-true"), cx.q(&qf, "tlp-false"), cx.q(&qn, "tlp-null")) else { return };
        let mut u = a.clone();
        u.extend(b.clone());
        u.extend(c.clone());
        u.sort();
        report::eval(Some(fnv(format!("{}|tlp|{}", cx.setup.join(";"), p.sql(false)).as_bytes())));
        report::count("pairs.tlp", 1);
        if u != all {
            cx.fail("tlp", "partition-differs", format!("|p|={} |NOT p|={} |p IS NULL|={} but |all|={}", a.len(), b.len(), c.len(), all.len()), vec![qt.sql(false), qf.sql(false), qn.sql(false)]);
            return;
        }
    }

    // (c) join operands swapped (self join through aliases; nested-loop ON forms)
    for _ in 0..3 {
        let sa = Gen::scope_of(&t_now, Some("a"));
        let sb = Gen::scope_of(&t_now, Some("b"));
        let lcol = g.r.pick(&sa).clone();
        let on_ab = match g.r.below(3) {
            0 => bin(Op::Eq, qcol("a", "id"), bin(Op::Add, qcol("b", "id"), lit_i(g.r.range(0, 2)))),
            1 => bin(Op::Lt, qcol("a", "id"), qcol("b", "id")),
            _ => bin(Op::Ge, qcol("a", "id"), bin(Op::Add, qcol("b", "id"), lit_i(1))),
        };
        let _ = (&sb, &lcol);
        let items = vec![Item::Expr(qcol("a", "id")), Item::Expr(qcol("b", "id"))];
        let q1 = Select { items: items.clone(), from: vec![from1("t0", Some("a")), FromItem { table: "t0".into(), alias: Some("b".into()), join: JoinKind::Inner, on: Some(on_ab.clone()) }], ..Default::default() };
        let q2 = Select { items, from: vec![from1("t0", Some("b")), FromItem { table: "t0".into(), alias: Some("a".into()), join: JoinKind::Inner, on: Some(on_ab) }], ..Default::default() };
        let (Some((a, pa)), Some((b, pb))) = (cx.q(&q1, "join-ab"), cx.q(&q2, "join-ba")) else { return };
        report::eval(if pa != pb { Some(fnv(format!("{}|{}", cx.setup.join(";"), q1.sql(false)).as_bytes())) } else { None });
        report::count(if pa != pb { "pairs.join_swap.plans_differ" } else { "pairs.join_swap.same_plan" }, 1);
        if a != b {
            cx.fail("join-swap", "result-differs", format!("{} vs {} rows", a.len(), b.len()), vec![q1.sql(false), q2.sql(false)]);
            return;
        }
    }
    }
    report::sample(3, || J::obj().with("history", J::Arr(cx.setup.iter().take(6).map(|s| J::Str(s.chars().take(160).collect())).collect())).with("verdict", "all plan-variant pairs agreed with each other and with the model"));
}

pub fn run(seed: u64, tier: &str, shard: u64) {
    let n = if tier == "thorough" { 3000 } else { 120 };
    let mut master = Rng::new(seed ^ shard.wrapping_mul(0xC06C_06C0_6C06_C06C));
    for i in 0..n {
        let mut r = master.fork(i);
        report::arm("C06 case", 180);
        run_case(&mut r);
        report::disarm();
        report::count("histories", 1);
    }
}
