//! E2 sqlhist — transactional histories (autocommit, sessions, batches, failing statements, DDL,
//! flush / vacuum / reopen) mirrored into the reference model. One driver thread; transactions do not
//! overlap as writers (overlap is E3's business), but fresh readers probe while a session is open.
use crate::c05::{case_atoms, clean_lang};
use crate::dbx::*;
use crate::json::J;
use crate::model::*;
use crate::report;
use crate::rng::{Rng, fnv};
use crate::sqlgen::*;
use std::collections::BTreeSet;

#[derive(Clone, Debug)]
pub enum Step {
    Auto(Stmt),
    Begin(usize),
    In(usize, Stmt),
    Commit(usize),
    Rollback(usize),
    DropSess(usize),
    Batch(Vec<Stmt>),
    Flush,
    Vacuum,
    Reopen(usize),
    /// raw SQL with an expectation decided by the generator (true = must succeed)
    Raw(String, bool),
    /// ROLLBACK with no read by the monitor afterwards (a read is a committing transaction and would change what
    /// the next VACUUM considers recent)
    RollbackQuiet(usize),
    /// COMMIT with no read by the monitor afterwards
    CommitQuiet(usize),
    /// BEGIN of a session during which the monitor issues no statement of its own (no fresh-reader checks)
    BeginQuiet(usize),
    /// a session that writes nothing and stays open while the following steps run
    BeginIdle(usize),
    /// the idle session re-reads (its snapshot must be the one it began with) and ends (true = commit, false = rollback)
    EndIdle(usize, bool),
    /// n read-only autocommit statements: they only advance the transaction counter
    Burn(usize),
}

impl Step {
    pub fn show(&self) -> String {
        match self {
            Step::Auto(s) => s.sql(),
            Step::Begin(i) => format!("@s{} begin", i),
            Step::In(i, s) => format!("@s{} {}", i, s.sql()),
            Step::Commit(i) => format!("@s{} commit", i),
            Step::Rollback(i) => format!("@s{} rollback", i),
            Step::DropSess(i) => format!("@s{} drop", i),
            Step::Batch(v) => format!("@batch {}", v.iter().map(|s| s.sql()).collect::<Vec<_>>().join(";;")),
            Step::Flush => "@flush".into(),
            Step::Vacuum => "@vacuum".into(),
            Step::Reopen(c) => format!("@reopen cfg{}", c),
            Step::Raw(s, _) => s.clone(),
            Step::RollbackQuiet(i) => format!("@s{} rollback (no read after)", i),
            Step::BeginQuiet(i) => format!("@s{} begin (no monitor reads until it ends)", i),
            Step::CommitQuiet(i) => format!("@s{} commit (no read after)", i),
            Step::BeginIdle(i) => format!("@s{} begin (idle)", i),
            Step::EndIdle(i, c) => format!("@s{} {} (idle)", i, if *c { "commit" } else { "rollback" }),
            Step::Burn(n) => format!("@burn {} SELECT", n),
        }
    }
}

/// What a profile may generate. Everything a profile leaves out is covered by witnesses, not randomly.
#[derive(Clone, Debug)]
pub struct Profile {
    pub check: &'static str,
    pub steps: usize,
    pub unique_key: bool,
    pub sessions: bool,
    pub rollback: bool,
    pub batch: bool,
    pub failing: bool,
    pub updates: bool,
    pub ddl_in_txn: bool,
    /// DELETE inside a transaction that will be rolled back (known finding: such rows can no longer be deleted)
    pub delete_in_rolled_back: bool,
    /// multi-row INSERT into the table with the UNIQUE key (known findings: duplicates inside one statement are accepted;
    /// inside a session the rows before the offending one stay)
    pub multi_row_unique: bool,
    pub flush: bool,
    pub vacuum: bool,
    pub reopen: bool,
    pub configs: Vec<axmosdb::DBConfig>,
    /// an idle (read-only) session may stay open across other transactions
    pub bystander: bool,
    /// DELETE inside a transaction that will be rolled back is generated, but the rows it touched are never the
    /// target of a later DELETE / UPDATE (that is the open finding `rolled_back_delete_blocks_later_delete`)
    pub tainting_deletes: bool,
    /// quiet committing sessions that insert rows and update those same rows once (NULL flips included), followed
    /// directly by VACUUM
    pub own_row_updates: bool,
    /// some histories first advance the transaction counter by 1000-3000 read-only statements
    pub burn: bool,
}

impl Profile {
    pub fn base(check: &'static str) -> Profile {
        Profile {
            check,
            steps: 24,
            unique_key: false,
            sessions: true,
            rollback: true,
            batch: true,
            failing: true,
            updates: false,
            ddl_in_txn: false,
            delete_in_rolled_back: false,
            multi_row_unique: false,
            flush: false,
            vacuum: false,
            reopen: false,
            configs: vec![default_cfg()],
            bystander: false,
            tainting_deletes: false,
            own_row_updates: false,
            burn: false,
        }
    }
}

pub struct Exec {
    pub db: Dbx,
    pub committed: State,
    pub sessions: std::collections::HashMap<usize, (Sx, State)>,
    pub transcript: Vec<String>,
    pub atoms: BTreeSet<String>,
    pub check: &'static str,
    pub script: Vec<String>,
    pub diverged: bool,
    /// C12: an explicit out-of-memory error of a too-small cache ends the run without being a divergence
    pub permit_oom: bool,
    pub stopped_oom: bool,
    pub quiet: std::collections::HashSet<usize>,
}

impl Exec {
    pub fn new(check: &'static str, cfg: axmosdb::DBConfig) -> Exec {
        Exec { db: Dbx::create(cfg), committed: State::default(), sessions: Default::default(), transcript: vec![], atoms: BTreeSet::new(), check, script: vec![], diverged: false, permit_oom: false, stopped_oom: false, quiet: Default::default() }
    }

    fn fail(&mut self, oracle: &str, kind: &str, detail: &str) {
        if self.permit_oom && (kind.contains("(oom)") || detail.contains("out of memory")) {
            self.stopped_oom = true;
            let _ = take_panics();
            return;
        }
        let atoms: Vec<String> = self.atoms.iter().cloned().collect();
        let panics: Vec<J> = take_panics().iter().map(|p| J::Str(format!("{} {}", panic_site(&p.location), p.message))).collect();
        report::violation(
            &format!("{}:{}:{}:[{}]", self.check, oracle, kind, atoms.join(",")),
            detail,
            J::obj().with("kind", "script").with("script", J::Arr(self.script.iter().map(|s| J::Str(s.clone())).collect())).with("panics", J::Arr(panics)),
        );
        self.diverged = true;
    }

    /// fresh autocommit read of every table must equal the committed model state
    pub fn check_committed(&mut self, when: &str) {
        let names: Vec<String> = self.committed.tables.keys().cloned().collect();
        for tn in names {
            let got = self.db.exec(&format!("SELECT * FROM {}", tn));
            let want = bag(&self.committed.tables[&tn].rows);
            match &got {
                Out::Rows(r) => {
                    let have = bag(r);
                    if have != want {
                        let extra = have.iter().filter(|k| !want.contains(k)).count();
                        let missing = want.iter().filter(|k| !have.contains(k)).count();
                        let kind = match (extra > 0, missing > 0) {
                            (true, false) => "extra-rows",
                            (false, true) => "missing-rows",
                            _ => "wrong-rows",
                        };
                        self.fail("committed-state", kind, &format!("{}: table {} is {} but the committed transactions give {} rows", when, tn, got.show(), want.len()));
                        return;
                    }
                    report::count("state_checks", 1);
                }
                Out::Err(e) => {
                    self.fail("committed-state", &format!("unreadable({})", err_class(e)), &format!("{}: SELECT * FROM {} => {}", when, tn, got.show()));
                    return;
                }
                o => {
                    self.fail("committed-state", "wrong-kind", &o.show());
                    return;
                }
            }
        }
    }

    fn check_session_view(&mut self, sid: usize) {
        let names: Vec<String> = self.sessions[&sid].1.tables.keys().cloned().collect();
        for tn in names {
            let (sx, ov) = self.sessions.get_mut(&sid).unwrap();
            let got = sx.exec(&format!("SELECT * FROM {}", tn));
            let want = bag(&ov.tables[&tn].rows);
            match &got {
                Out::Rows(r) if bag(r) == want => report::count("session_view_checks", 1),
                _ => {
                    self.fail("session-view", "own-writes-mismatch", &format!("session s{} reads {} => {} but its snapshot + own writes give {} rows", sid, tn, got.show(), want.len()));
                    return;
                }
            }
        }
    }

    pub fn run_step(&mut self, st: &Step) {
        if self.diverged {
            return;
        }
        self.script.push(st.show());
        if std::env::var("AXV_TRACE").is_ok() {
            eprintln!("  step {}", st.show().chars().take(150).collect::<String>());
        }
        match st {
            Step::Auto(s) => {
                let o = self.db.exec(&s.sql());
                let m = self.committed.apply(s);
                count_outcome(&o, &m);
                self.transcript.push(canon(&o));
                if let Some(d) = compare(&o, &m) {
                    self.fail("statement", &d.tag(), &format!("{} => {} (model: {})", s.sql(), o.show(), show_m(&m)));
                    return;
                }
                if !matches!(s, Stmt::Select(_)) {
                    self.check_committed(&format!("after autocommit `{}`", s.sql()));
                }
            }
            Step::Begin(i) => match self.db.session() {
                Ok(sx) => {
                    self.sessions.insert(*i, (sx, self.committed.clone()));
                    self.transcript.push("begin".into());
                }
                Err(e) => self.fail("session", "begin-failed", &e),
            },
            Step::In(i, s) => {
                let Some((sx, ov)) = self.sessions.get_mut(i) else { return };
                let o = sx.exec(&s.sql());
                let m = ov.apply(s);
                count_outcome(&o, &m);
                self.transcript.push(canon(&o));
                if let Some(d) = compare(&o, &m) {
                    self.fail("statement-in-txn", &d.tag(), &format!("{} => {} (model: {})", s.sql(), o.show(), show_m(&m)));
                    return;
                }
                if matches!(m, MOut::Err(_)) {
                    self.atoms.insert("hist.stmt_failed_in_txn".into());
                }
                if self.quiet.contains(i) {
                    return;
                }
                self.check_session_view(*i);
                if self.diverged {
                    return;
                }
                // uncommitted work must be invisible to a fresh reader
                self.check_committed(&format!("while s{} is open after `{}`", i, s.sql()));
            }
            Step::Commit(i) => {
                let Some((sx, ov)) = self.sessions.remove(i) else { return };
                match sx.commit() {
                    Ok(()) => {
                        self.committed = ov;
                        self.transcript.push("commit ok".into());
                        self.check_committed(&format!("after commit of s{}", i));
                    }
                    Err(e) => self.fail("commit", &format!("unexpected-error({})", err_class(&e)), &e),
                }
            }
            Step::Rollback(i) => {
                let Some((sx, _)) = self.sessions.remove(i) else { return };
                self.atoms.insert("hist.rollback".into());
                match sx.rollback() {
                    Ok(()) => {
                        self.transcript.push("rollback ok".into());
                        self.check_committed(&format!("after rollback of s{}", i));
                    }
                    Err(e) => self.fail("rollback", &format!("unexpected-error({})", err_class(&e)), &e),
                }
            }
            Step::DropSess(i) => {
                if self.sessions.remove(i).is_some() {
                    self.atoms.insert("hist.session_drop".into());
                    self.transcript.push("dropped".into());
                    self.check_committed(&format!("after dropping s{}", i));
                }
            }
            Step::Batch(v) => {
                let sqls: Vec<String> = v.iter().map(|s| s.sql()).collect();
                let refs: Vec<&str> = sqls.iter().map(|s| s.as_str()).collect();
                let r = self.db.batch(&refs);
                let mut ov = self.committed.clone();
                let mut model_ok = true;
                let mut mouts = vec![];
                for s in v {
                    let m = ov.apply(s);
                    if matches!(m, MOut::Err(_)) {
                        model_ok = false;
                        break;
                    }
                    mouts.push(m);
                }
                match (&r, model_ok) {
                    (Ok(outs), true) => {
                        self.transcript.push(format!("batch ok {}", outs.iter().map(canon).collect::<Vec<_>>().join("|")));
                        for (o, m) in outs.iter().zip(mouts.iter()) {
                            if let Some(d) = compare(o, m) {
                                self.fail("batch-statement", &d.tag(), &format!("{:?} => {}", sqls, o.show()));
                                return;
                            }
                        }
                        self.committed = ov;
                    }
                    (Err(_), false) => {
                        self.atoms.insert("hist.batch_failed".into());
                        self.transcript.push("batch err".into());
                    }
                    (Ok(_), false) => {
                        self.fail("batch", "unexpected-success", &format!("{:?}", sqls));
                        return;
                    }
                    (Err(e), true) => {
                        self.fail("batch", &format!("unexpected-error({})", err_class(e)), &format!("{:?} => {}", sqls, e));
                        return;
                    }
                }
                self.check_committed("after batch");
            }
            Step::Flush => {
                self.atoms.insert("hist.flush".into());
                match self.db.flush() {
                    Ok(()) => {
                        self.transcript.push("flush ok".into());
                        self.check_committed("after flush");
                    }
                    Err(e) => self.fail("flush", "unexpected-error", &e),
                }
            }
            Step::Vacuum => {
                self.atoms.insert("hist.vacuum".into());
                // vacuum aborts every open transaction
                self.sessions.clear();
                match self.db.vacuum() {
                    Ok(_) => {
                        self.transcript.push("vacuum ok".into());
                        self.check_committed("after vacuum");
                    }
                    Err(e) => self.fail("vacuum", &format!("unexpected-error({})", err_class(&e)), &e),
                }
            }
            Step::Reopen(_) => {}
            Step::Raw(sql, must_succeed) => {
                let o = self.db.exec(sql);
                self.transcript.push(canon(&o));
                if o.is_ok() != *must_succeed {
                    self.fail("raw", if *must_succeed { "unexpected-error" } else { "unexpected-success" }, &format!("{} => {}", sql, o.show()));
                }
            }
            Step::BeginQuiet(i) => match self.db.session() {
                Ok(sx) => {
                    self.quiet.insert(*i);
                    self.sessions.insert(*i, (sx, self.committed.clone()));
                    self.transcript.push("begin".into());
                }
                Err(e) => self.fail("session", "begin-failed", &e),
            },
            Step::CommitQuiet(i) => {
                let Some((sx, ov)) = self.sessions.remove(i) else { return };
                self.atoms.insert("hist.quiet_commit".into());
                match sx.commit() {
                    Ok(()) => {
                        self.committed = ov;
                        self.transcript.push("commit ok".into());
                    }
                    Err(e) => self.fail("commit", &format!("unexpected-error({})", err_class(&e)), &e),
                }
            }
            Step::RollbackQuiet(i) => {
                let Some((sx, _)) = self.sessions.remove(i) else { return };
                self.atoms.insert("hist.rollback".into());
                match sx.rollback() {
                    Ok(()) => self.transcript.push("rollback ok".into()),
                    Err(e) => self.fail("rollback", &format!("unexpected-error({})", err_class(&e)), &e),
                }
            }
            Step::BeginIdle(i) => match self.db.session() {
                Ok(sx) => {
                    self.atoms.insert("hist.idle_session".into());
                    self.sessions.insert(*i, (sx, self.committed.clone()));
                    self.transcript.push("begin idle".into());
                }
                Err(e) => self.fail("session", "begin-failed", &e),
            },
            Step::EndIdle(i, commit) => {
                if !self.sessions.contains_key(i) {
                    return;
                }
                // the snapshot the idle session began with must still be what it reads
                self.check_session_view(*i);
                if self.diverged {
                    return;
                }
                report::count("idle_session_snapshot_checks", 1);
                let (sx, _) = self.sessions.remove(i).unwrap();
                let r = if *commit { sx.commit() } else { sx.rollback() };
                match r {
                    Ok(()) => {
                        self.transcript.push("idle end ok".into());
                        // ending a transaction that wrote nothing changes nothing for anybody
                        self.check_committed(&format!("after the idle session s{} ended", i));
                    }
                    Err(e) => self.fail(if *commit { "commit" } else { "rollback" }, &format!("unexpected-error({})", err_class(&e)), &e),
                }
            }
            Step::Burn(n) => {
                let tn = self.committed.tables.keys().next().cloned().unwrap_or_default();
                for _ in 0..*n {
                    let o = self.db.exec(&format!("SELECT * FROM {} WHERE 1 = 0", tn));
                    if !o.is_ok() {
                        self.fail("statement", "burn-select-failed", &o.show());
                        return;
                    }
                }
                tick();
                report::count("burned_transactions", *n as i64);
                self.transcript.push(format!("burn {}", n));
            }
        }
    }

    pub fn reopen(&mut self, cfg: axmosdb::DBConfig) {
        if self.diverged {
            return;
        }
        self.script.push("@reopen".into());
        self.atoms.insert("hist.reopen".into());
        self.sessions.clear();
        match self.db.reopen(cfg) {
            Ok(()) => {
                self.transcript.push("reopen ok".into());
                self.check_committed("after close and reopen");
            }
            Err(e) => self.fail("reopen", &format!("open-failed({})", err_class(&e)), &e),
        }
    }
}

fn count_outcome(o: &Out, m: &MOut) {
    match (o, m) {
        (Out::Err(_), MOut::Err(MErr::Constraint(_))) => report::count("constraint_rejections_agreed", 1),
        (Out::Err(_), MOut::Err(_)) => report::count("other_rejections_agreed", 1),
        (Out::Affected(n), MOut::Affected(_)) if *n > 0 => report::count("accepted_writes_agreed", 1),
        _ => {}
    }
}

pub fn canon(o: &Out) -> String {
    match o {
        Out::Rows(r) => format!("ROWS {}", bag(r).join(";")),
        Out::Affected(n) => format!("AFFECTED {}", n),
        Out::Ddl(_) => "DDL".into(),
        Out::Err(e) => format!("ERR {}", err_class(e)),
    }
}

pub fn show_m(m: &MOut) -> String {
    match m {
        MOut::Rows { rows, .. } => Out::Rows(rows.clone()).show(),
        MOut::Affected(n) => format!("AFFECTED {}", n),
        MOut::Ddl => "DDL".into(),
        MOut::Err(e) => format!("ERR {:?}", e),
    }
}

// ---------------------------------------------------------------------------------------------
// history generator

pub struct HistGen<'a> {
    pub r: &'a mut Rng,
    pub lang: Lang,
    pub p: &'a Profile,
}

impl<'a> HistGen<'a> {
    /// The single table of the history.
    pub fn table(&mut self) -> Table {
        let mut g = Gen::new(self.r, &self.lang);
        if self.p.unique_key {
            // (id, k <small domain key>, n TEXT NOT NULL) with UNIQUE(k)
            let kty = *g.r.pick(&[Ty::Int, Ty::BigInt, Ty::Text]);
            Table {
                name: "t0".into(),
                cols: vec![
                    Col { name: "id".into(), ty: Ty::BigInt, not_null: false, default: None },
                    Col { name: "k".into(), ty: kty, not_null: false, default: None },
                    Col { name: "n".into(), ty: Ty::Text, not_null: true, default: None },
                ],
                uniques: vec![vec![1]],
                rows: vec![],
            }
        } else {
            let nc = g.r.range(1, 3) as usize;
            let mut t = g.table("t0", nc);
            t.uniques.clear();
            for c in t.cols.iter_mut() {
                c.default = None;
            }
            t
        }
    }

    fn key_value(&mut self, ty: Ty) -> V {
        match ty {
            Ty::Text => V::T(self.r.pick(&["a", "b", "c", "d", "e"]).to_string()),
            _ => V::I(self.r.range(1, 6) as i128),
        }
    }

    /// One DML statement valid for the table in `st` (may legitimately fail on a constraint).
    pub fn dml(&mut self, st: &State, next_id: &mut i128, in_txn: bool) -> Stmt {
        let t = st.tables.values().next().unwrap().clone();
        let allow_update = self.p.updates && !in_txn && !self.p.unique_key;
        let k = self.r.below(10);
        if self.p.unique_key {
            if k < 6 {
                let n = if self.p.multi_row_unique && self.r.chance(1, 4) { self.r.range(2, 3) } else { 1 };
                let mut rows = vec![];
                for _ in 0..n {
                    let key = self.key_value(t.cols[1].ty);
                    let nv = if self.p.failing && self.r.chance(1, 12) { V::Null } else { V::T(self.r.pick(TEXT_VOCAB).to_string()) };
                    rows.push(vec![Expr::Lit(V::I(*next_id)), Expr::Lit(key), Expr::Lit(nv)]);
                    *next_id += 1;
                }
                return Stmt::Insert(t.name.clone(), None, rows);
            }
            let key = self.key_value(t.cols[1].ty);
            return Stmt::Delete(t.name.clone(), Some(bin(Op::Eq, bin_wrap(col("k"), t.cols[1].ty), Expr::Lit(key))));
        }
        let mut g = Gen::new(self.r, &self.lang);
        for _ in 0..20 {
            let cand = if k < 5 {
                let mut probe = *next_id;
                let s = g.insert(&t, &mut probe);
                *next_id = probe;
                s
            } else if k < 7 && allow_update {
                g.update(&t)
            } else {
                g.delete(&t)
            };
            if case_atoms(&cand, st).iter().any(|a| g.lang.banned.contains(a)) {
                continue;
            }
            if matches!(cand, Stmt::Update(..)) {
                let mut probe = st.clone();
                if matches!(probe.apply(&cand), MOut::Err(_)) {
                    continue; // known: a failing UPDATE leaves partial changes
                }
            }
            return cand;
        }
        g.delete(&t)
    }

    pub fn insert_only(&mut self, st: &State, next_id: &mut i128) -> Stmt {
        let t = st.tables.values().next().unwrap().clone();
        if self.p.unique_key {
            loop {
                let s = self.dml(st, next_id, true);
                if matches!(s, Stmt::Insert(..)) {
                    return s;
                }
            }
        }
        let mut g = Gen::new(self.r, &self.lang);
        for _ in 0..20 {
            let mut probe = *next_id;
            let s = g.insert(&t, &mut probe);
            if case_atoms(&s, st).iter().any(|a| g.lang.banned.contains(a)) {
                continue;
            }
            *next_id = probe;
            return s;
        }
        let s = Stmt::Insert(t.name.clone(), None, vec![t.cols.iter().enumerate().map(|(i, c)| if i == 0 { Expr::Lit(V::I(*next_id)) } else { Expr::Lit(g.value(c.ty, false)) }).collect()]);
        *next_id += 1;
        s
    }

    pub fn failing_stmt(&mut self, st: &State) -> Stmt {
        let t = st.tables.values().next().unwrap().clone();
        match self.r.below(3) {
            0 => Stmt::Insert("no_such_table".into(), None, vec![vec![lit_i(1)]]),
            1 => Stmt::Insert(t.name.clone(), None, vec![(0..t.cols.len() + 2).map(|_| lit_i(1)).collect()]),
            _ => Stmt::Delete("no_such_table".into(), None),
        }
    }
}

/// For TEXT keys compare directly; numeric keys are compared through `k + 0` so that the read used by the
/// generated DELETE never depends on the index being judged.
fn bin_wrap(e: Expr, ty: Ty) -> Expr {
    match ty {
        Ty::Text => e,
        _ => bin(Op::Add, e, lit_i(0)),
    }
}

pub fn gen_history(r: &mut Rng, p: &Profile) -> (Table, Vec<Step>) {
    let lang = clean_lang();
    let mut hg = HistGen { r, lang, p };
    let t = hg.table();
    let mut model = State::default();
    model.apply(&Stmt::Create(t.clone()));
    let mut steps = vec![Step::Auto(Stmt::Create(t.clone()))];
    let mut next_id: i128 = 1;
    // initial population by one multi-row insert
    if !p.unique_key {
        let lang2 = hg.lang.clone();
        let mut g = Gen::new(hg.r, &lang2);
        let n = *g.r.pick(&[0usize, 2, 5, 9]);
        if n > 0 {
            let rows = g.population(&t, n);
            for s in populate_stmts(&t, &rows, n) {
                model.apply(&s);
                steps.push(Step::Auto(s));
            }
            next_id = n as i128 + 1;
        }
    }
    let mut open: Option<(usize, State, usize, u8)> = None; // (sid, overlay, remaining stmts, end kind 0=commit 1=rollback 2=drop)
    let mut sid = 0usize;
    let mut i = 0;
    let mut idle: Option<usize> = None;
    let mut own_ids: Vec<i128> = vec![];
    // ids of rows touched by a DELETE that was rolled back (never targeted again: open finding)
    let mut tainted: BTreeSet<String> = BTreeSet::new();
    if p.burn && hg.r.chance(1, 16) {
        steps.push(Step::Burn(*hg.r.pick(&[300usize, 1100, 2500])));
    }
    while i < p.steps {
        i += 1;
        if p.bystander && open.is_none() && hg.r.chance(1, 8) {
            match idle.take() {
                None => {
                    sid += 1;
                    idle = Some(sid);
                    steps.push(Step::BeginIdle(sid));
                }
                Some(s) => steps.push(Step::EndIdle(s, hg.r.chance(2, 3))),
            }
            continue;
        }
        if let Some((s, mut ov, left, end)) = open.take() {
            if left == 0 {
                match end {
                    4 => {
                        steps.push(Step::CommitQuiet(s));
                        model = ov;
                        steps.push(Step::Vacuum);
                    }
                    3 => {
                        // VACUUM right after the ROLLBACK, with no transaction in between
                        steps.push(Step::RollbackQuiet(s));
                        if p.vacuum {
                            steps.push(Step::Vacuum);
                        } else if p.reopen && hg.r.chance(1, 2) {
                            let c = hg.r.usize(p.configs.len());
                            steps.push(Step::Reopen(c));
                        } else if p.flush && hg.r.chance(1, 2) {
                            steps.push(Step::Flush);
                        }
                    }
                    1 => steps.push(Step::Rollback(s)),
                    2 => steps.push(Step::DropSess(s)),
                    _ => {
                        steps.push(Step::Commit(s));
                        model = ov;
                    }
                }
                continue;
            }
            let mut taint_after: Option<String> = None;
            let mut st = if end == 4 {
                if own_ids.is_empty() || hg.r.chance(1, 3) {
                    let st = hg.insert_only(&ov, &mut next_id);
                    if let Stmt::Insert(_, _, rows) = &st {
                        for row in rows {
                            if let Some(Expr::Lit(V::I(k))) = row.first() {
                                own_ids.push(*k);
                            }
                        }
                    }
                    st
                } else {
                    // one UPDATE per own row: a random value column gets a new value or NULL
                    let k = own_ids.remove(hg.r.usize(own_ids.len()));
                    taint_after = Some(V::I(k).key()); // an updated row is never the target of a later DELETE / UPDATE (open findings)
                    let t = ov.tables.values().next().unwrap().clone();
                    let ci = hg.r.range(1, t.cols.len() as i64 - 1) as usize;
                    let lang2 = hg.lang.clone();
                    let mut g = Gen::new(hg.r, &lang2);
                    // flip NULL-ness on purpose in two thirds of the updates
                    let cur_null = t.rows.iter().find(|row| row[0] == V::I(k)).map(|row| row[ci].is_null()).unwrap_or(false);
                    let v = if cur_null { g.value(t.cols[ci].ty, false) } else if !t.cols[ci].not_null && g.r.chance(2, 3) { V::Null } else { g.value(t.cols[ci].ty, false) };
                    Stmt::Update(t.name.clone(), vec![(t.cols[ci].name.clone(), Expr::Lit(v))], Some(bin(Op::Eq, bin(Op::Add, col("id"), Expr::Lit(V::I(0))), Expr::Lit(V::I(k)))))
                }
            } else if p.failing && hg.r.chance(1, 8) {
                hg.failing_stmt(&ov)
            } else if end != 0 && !p.delete_in_rolled_back && !p.tainting_deletes {
                hg.insert_only(&ov, &mut next_id)
            } else {
                hg.dml(&ov, &mut next_id, true)
            };
            if p.tainting_deletes || p.own_row_updates {
                let touched = touched_ids(&ov, &st);
                if touched.iter().any(|t| tainted.contains(t)) {
                    st = hg.insert_only(&ov, &mut next_id);
                } else if end != 0 && end != 4 || matches!(st, Stmt::Update(..)) {
                    // rows touched by a rolled-back DELETE, and rows that were updated, are never targeted again (open findings)
                    tainted.extend(touched);
                }
            }
            if let Some(k) = taint_after {
                tainted.insert(k);
            }
            ov.apply(&st);
            steps.push(Step::In(s, st));
            open = Some((s, ov, left - 1, end));
            continue;
        }
        let k = hg.r.below(20);
        if p.sessions && k < 6 {
            sid += 1;
            let k = hg.r.below(10);
            let mut end = if p.rollback && k < 4 { 1 } else if p.rollback && k < 5 { 2 } else { 0 };
            let tbl = model.tables.values().next().unwrap();
            if p.own_row_updates && p.vacuum && end == 0 && !p.unique_key && tbl.cols.len() > 1 && !tbl.cols.iter().any(|c| matches!(c.ty, Ty::Bool)) && hg.r.chance(1, 2) {
                end = 4; // quiet: insert, update the inserted rows once, commit, VACUUM at once
                steps.push(Step::BeginQuiet(sid));
                own_ids.clear();
            } else if end == 1 && ((p.vacuum && hg.r.chance(1, 2)) || (!p.vacuum && hg.r.chance(1, 4))) {
                end = 3; // quiet session: rolled back and vacuumed with no other transaction in between
                steps.push(Step::BeginQuiet(sid));
            } else {
                steps.push(Step::Begin(sid));
            }
            open = Some((sid, model.clone(), hg.r.range(1, 3) as usize, end));
        } else if p.batch && k < 8 {
            let n = hg.r.range(2, 3);
            let mut ov = model.clone();
            let mut v = vec![];
            let fail_at = if p.failing && hg.r.chance(1, 3) { Some(hg.r.below(n as u64 + 1) as i64) } else { None };
            let mut ok = true;
            for j in 0..=n {
                let st = if fail_at == Some(j) {
                    hg.failing_stmt(&ov)
                } else if j == n {
                    break
                } else if fail_at.is_some() && !p.delete_in_rolled_back {
                    hg.insert_only(&ov, &mut next_id)
                } else {
                    hg.dml(&ov, &mut next_id, true)
                };
                let st = if (p.tainting_deletes || p.own_row_updates) && touched_ids(&ov, &st).iter().any(|t| tainted.contains(t)) { hg.insert_only(&ov, &mut next_id) } else { st };
                if matches!(ov.apply(&st), MOut::Err(_)) {
                    ok = false;
                }
                v.push(st);
            }
            if ok {
                model = ov;
            }
            steps.push(Step::Batch(v));
        } else if p.flush && k == 8 {
            steps.push(Step::Flush);
        } else if p.vacuum && k == 9 {
            steps.push(Step::Vacuum);
        } else if p.reopen && k == 10 {
            let c = hg.r.usize(p.configs.len());
            steps.push(Step::Reopen(c));
        } else if p.failing && k == 11 {
            let st = hg.failing_stmt(&model);
            steps.push(Step::Auto(st));
        } else {
            let mut st = hg.dml(&model, &mut next_id, false);
            if (p.tainting_deletes || p.own_row_updates) && touched_ids(&model, &st).iter().any(|t| tainted.contains(t)) {
                st = hg.insert_only(&model, &mut next_id);
            }
            model.apply(&st);
            steps.push(Step::Auto(st));
        }
    }
    if let Some((s, _, _, _)) = open {
        steps.push(Step::Rollback(s));
    }
    if let Some(s) = idle {
        steps.push(Step::EndIdle(s, true));
    }
    (t, steps)
}

/// Keys (first column) of the rows a DELETE / UPDATE removes or changes in `st`.
fn touched_ids(st: &State, s: &Stmt) -> Vec<String> {
    if !matches!(s, Stmt::Delete(..) | Stmt::Update(..)) {
        return vec![];
    }
    let mut after = st.clone();
    after.apply(s);
    let mut out = vec![];
    for (name, t) in &st.tables {
        let Some(t2) = after.tables.get(name) else { continue };
        let keep: BTreeSet<String> = t2.rows.iter().map(|r| r.iter().map(|v| v.key()).collect::<Vec<_>>().join("|")).collect();
        for r in &t.rows {
            if !keep.contains(&r.iter().map(|v| v.key()).collect::<Vec<_>>().join("|")) {
                out.push(r[0].key());
            }
        }
    }
    out
}

/// Run one generated history; returns the transcript (used by the configuration differential).
pub fn run_history(check: &'static str, steps: &[Step], cfg0: axmosdb::DBConfig, configs: &[axmosdb::DBConfig]) -> (Vec<String>, bool) {
    let mut ex = Exec::new(check, cfg0);
    for st in steps {
        if let Step::Reopen(c) = st {
            ex.reopen(configs[*c % configs.len()]);
        } else {
            ex.run_step(st);
        }
        if ex.diverged {
            break;
        }
    }
    let _ = take_panics();
    (ex.transcript.clone(), ex.diverged)
}

pub fn history_hash(steps: &[Step]) -> u64 {
    fnv(steps.iter().map(|s| s.show()).collect::<Vec<_>>().join("\n").as_bytes())
}

pub fn nontrivial(steps: &[Step]) -> bool {
    steps.iter().any(|s| matches!(s, Step::Rollback(_) | Step::RollbackQuiet(_) | Step::CommitQuiet(_) | Step::DropSess(_) | Step::Commit(_) | Step::Batch(_) | Step::Vacuum | Step::Reopen(_) | Step::Flush))
}

pub fn run_profile(p: &Profile, seed: u64, shard: u64, n_hist: usize) {
    let mut master = Rng::new(seed ^ shard.wrapping_mul(0x9e37_79b9_aaaa_5555) ^ fnv(p.check.as_bytes()));
    for h in 0..n_hist {
        let mut r = master.fork(h as u64);
        let (_t, steps) = gen_history(&mut r, p);
        report::arm(&format!("{} history {}", p.check, h), 180);
        let (_tr, div) = run_history(p.check, &steps, p.configs[0], &p.configs);
        report::disarm();
        report::eval(if nontrivial(&steps) { Some(history_hash(&steps)) } else { None });
        for s in &steps {
            let k = match s {
                Step::Auto(_) => "auto",
                Step::Begin(_) => "begin",
                Step::In(..) => "in_txn",
                Step::Commit(_) => "commit",
                Step::Rollback(_) => "rollback",
                Step::DropSess(_) => "session_drop",
                Step::Batch(_) => "batch",
                Step::Flush => "flush",
                Step::Vacuum => "vacuum",
                Step::Reopen(_) => "reopen",
                Step::Raw(..) => "raw",
                Step::RollbackQuiet(_) => "rollback_then_vacuum",
                Step::BeginQuiet(_) => "begin",
                Step::CommitQuiet(_) => "commit_then_vacuum",
                Step::BeginIdle(_) => "begin_idle",
                Step::EndIdle(..) => "end_idle",
                Step::Burn(_) => "burn",
            };
            report::count(&format!("steps.{}", k), 1);
        }
        if !div {
            report::sample(3, || J::obj().with("history", J::Arr(steps.iter().map(|s| J::Str(s.show())).collect())).with("verdict", "all oracles agreed"));
        }
    }
}
