//! C20 — wire protocol. (1) decode(encode(m)) == m for structured Request / Response values; (2) framing round trip
//! including the 16 MiB boundary; (3) arbitrary bytes, truncations and extreme length fields fed to the decoders and
//! the frame reader: never a panic, never a hang, allocation bounded by the input size (counting allocator; inputs
//! that may make the process die are declared first so that the death is attributed).
use crate::json::J;
use crate::report;
use crate::rng::{Rng, fnv};
use axmosdb::tcp::*;
use std::io::Cursor;

fn rstring(r: &mut Rng) -> String {
    match r.below(10) {
        0 => String::new(),
        1 => "é漢字🙂\u{0}x".to_string(),
        2 => "x".repeat(r.range(1000, 70000) as usize),
        3 => "SELECT * FROM t WHERE s = 'it''s'".into(),
        4 => "\n\t\r\\\"".into(),
        _ => {
            let n = r.range(1, 40) as usize;
            (0..n).map(|_| *r.pick(&['a', 'Z', ' ', '0', '_', 'ñ', '\'', ',', '(', ')'])).collect()
        }
    }
}

pub fn gen_request(r: &mut Rng) -> Request {
    match r.below(13) {
        0 => Request::Create(rstring(r)),
        1 => Request::Open(rstring(r)),
        2 => Request::Sql(rstring(r)),
        3 => Request::Begin,
        4 => Request::Rollback,
        5 => Request::Commit,
        6 => Request::Explain(rstring(r)),
        7 => Request::Analyze {
            sample_rate: *r.pick(&[0.0, 1.0, 0.5, -1.0, f64::NAN, f64::INFINITY, f64::MIN_POSITIVE, 1e308]),
            max_sample_rows: *r.pick(&[0usize, 1, 10000, u32::MAX as usize, usize::MAX]),
        },
        8 => Request::Vacuum,
        9 => Request::Close,
        10 => Request::Ping,
        11 => Request::Shutdown,
        _ => Request::Sql("x".repeat(r.range(0, 300) as usize)),
    }
}

pub fn gen_response(r: &mut Rng) -> Response {
    match r.below(14) {
        0 => Response::Ok(rstring(r)),
        1 => Response::Error(rstring(r)),
        2 | 3 | 4 => {
            let nc = *r.pick(&[0usize, 1, 2, 5, 40]);
            let nr = *r.pick(&[0usize, 1, 3, 50, 2000]);
            // a result set without columns carries no rows on the wire (the decoder rejects it since the fix in /repo)
            let nr = if nc == 0 { 0 } else { nr };
            let columns: Vec<String> = (0..nc).map(|i| if r.chance(1, 5) { rstring(r).chars().take(20).collect() } else { format!("c{}", i) }).collect();
            let data: Vec<Vec<String>> = (0..nr).map(|_| (0..nc).map(|_| if r.chance(1, 6) { String::new() } else if r.chance(1, 10) { "NULL".into() } else { r.range(-100000, 100000).to_string() }).collect()).collect();
            Response::Rows { columns, data }
        }
        5 => Response::SessionStarted,
        6 => Response::SessionEnd,
        7 => Response::RowsAffected(*r.pick(&[0u64, 1, 255, u32::MAX as u64 + 1, u64::MAX])),
        8 => Response::Ddl(rstring(r)),
        9 => Response::Explain(rstring(r)),
        10 => Response::VacuumComplete { tables_vacuumed: r.below(100) as usize, bytes_freed: *r.pick(&[0usize, 4096, usize::MAX]), transactions_cleaned: r.below(10000) as usize },
        11 => Response::Pong,
        12 => Response::Goodbye,
        _ => Response::ShuttingDown,
    }
}

fn dbg_req(q: &Request) -> String {
    match q {
        Request::Analyze { sample_rate, max_sample_rows } => format!("Analyze({:#x},{})", sample_rate.to_bits(), max_sample_rows),
        o => format!("{:?}", o),
    }
}

fn short_hex(b: &[u8]) -> String {
    let mut s: String = b.iter().take(48).map(|x| format!("{:02x}", x)).collect();
    if b.len() > 48 {
        s.push_str(&format!("…({} bytes)", b.len()));
    }
    s
}

fn viol(oracle: &str, kind: &str, detail: String, bytes: &[u8]) {
    report::violation(&format!("C20:{}:{}", oracle, kind), &detail, J::obj().with("kind", "bytes").with("hex", short_hex(bytes)).with("len", bytes.len()));
}

/// Runs a decoder under catch_unwind + allocation accounting. `label` is declared first when the input carries
/// extreme length fields (the process may die of an allocation failure).
fn guarded<T>(label: &str, dangerous: bool, input: &[u8], f: impl FnOnce() -> T + std::panic::UnwindSafe) -> Option<T> {
    if dangerous {
        report::about_to(label, &format!("input {}", short_hex(input)));
    }
    crate::allocprobe::reset();
    let r = std::panic::catch_unwind(f);
    let maxreq = crate::allocprobe::max_request();
    if dangerous {
        report::done_with();
    }
    let _ = crate::dbx::take_panics();
    if crate::allocprobe::ACTIVE {
        report::count("alloc_accounted_decodes", 1);
        report::set_max("max.single_allocation_request_bytes", maxreq as i64);
        let bound = 64 * input.len() + (1 << 16);
        if maxreq > bound.max(17 * 1024 * 1024) || (maxreq > bound && !label.starts_with("read_message")) {
            viol("unbounded-alloc", label, format!("a {}-byte input made the decoder request a single allocation of {} bytes", input.len(), maxreq), input);
        }
    }
    match r {
        Ok(v) => Some(v),
        Err(_) => {
            viol("panic", label, format!("decoder panicked on a {}-byte input", input.len()), input);
            None
        }
    }
}

pub fn run(seed: u64, tier: &str, shard: u64) {
    let n = if tier == "thorough" { 60000 } else if tier == "miri" { 40 } else { 4000 };
    let mut master = Rng::new(seed ^ shard.wrapping_mul(0xC20C_20C2_0C20_C20C));
    // (1) structured round trips
    for i in 0..n {
        let mut r = master.fork(i);
        let q = gen_request(&mut r);
        let b = q.to_bytes();
        report::eval(Some(fnv(&b)));
        report::count("roundtrip.request", 1);
        match Request::from_bytes(&b) {
            Ok(back) if dbg_req(&back) == dbg_req(&q) => {}
            Ok(back) => viol("roundtrip", "request-differs", format!("sent {} received {}", dbg_req(&q).chars().take(120).collect::<String>(), dbg_req(&back).chars().take(120).collect::<String>()), &b),
            Err(e) => viol("roundtrip", "request-rejected", format!("{} rejected: {}", dbg_req(&q).chars().take(120).collect::<String>(), e), &b),
        }
        let p = gen_response(&mut r);
        let b = p.to_bytes();
        report::eval(Some(fnv(&b)));
        report::count("roundtrip.response", 1);
        match Response::from_bytes(&b) {
            Ok(back) if format!("{:?}", back) == format!("{:?}", p) => {}
            Ok(back) => viol("roundtrip", "response-differs", format!("sent {} received {}", format!("{:?}", p).chars().take(120).collect::<String>(), format!("{:?}", back).chars().take(120).collect::<String>()), &b),
            Err(e) => viol("roundtrip", "response-rejected", format!("{} rejected: {}", format!("{:?}", p).chars().take(120).collect::<String>(), e), &b),
        }
        // (2) framing
        let mut framed = vec![];
        match write_message(&mut framed, &b) {
            Ok(()) => match read_message(&mut Cursor::new(&framed)) {
                Ok(got) if got == b => report::count("roundtrip.frame", 1),
                Ok(_) => viol("framing", "payload-differs", "read_message(write_message(b)) != b".into(), &b),
                Err(e) => viol("framing", "frame-rejected", format!("{}", e), &b),
            },
            Err(e) => viol("framing", "write-rejected", format!("{} bytes: {}", b.len(), e), &b),
        }
        if i < 3 {
            report::sample(3, || J::obj().with("request", dbg_req(&q).chars().take(100).collect::<String>()).with("response", format!("{:?}", p).chars().take(100).collect::<String>()).with("encoded_len", b.len()));
        }
    }
    // frame size boundary (once per shard 0; 16 MiB buffers are out of reach of the interpreter tier)
    if shard == 0 && tier != "miri" {
        for (len, ok) in [(0usize, true), (1, true), (MAX_MESSAGE_SIZE - 1, true), (MAX_MESSAGE_SIZE, true), (MAX_MESSAGE_SIZE + 1, false)] {
            let payload = vec![0xABu8; len];
            let mut framed = vec![];
            let w = write_message(&mut framed, &payload);
            report::eval(Some(fnv(format!("frame{}", len).as_bytes())));
            report::count("frame_boundary_cases", 1);
            if w.is_ok() != ok {
                viol("framing", "size-limit-write", format!("write_message of {} bytes: ok={} expected ok={}", len, w.is_ok(), ok), &payload[..16.min(len)]);
            }
            if ok {
                match read_message(&mut Cursor::new(&framed)) {
                    Ok(g) if g == payload => {}
                    _ => viol("framing", "size-limit-read", format!("frame of {} bytes did not read back", len), &[]),
                }
            } else {
                // a frame header that announces MAX+1 must be rejected by the reader
                let mut hdr = ((len) as u32).to_le_bytes().to_vec();
                hdr.extend_from_slice(&[0u8; 8]);
                if read_message(&mut Cursor::new(&hdr)).is_ok() {
                    viol("framing", "size-limit-read", "read_message accepted a frame announcing 16 MiB + 1".into(), &hdr);
                }
            }
        }
    }
    // (3) garbage
    let m = if tier == "thorough" { 200000 } else if tier == "miri" { 150 } else { 12000 };
    for i in 0..m {
        let mut r = master.fork(1_000_000 + i);
        let (bytes, dangerous): (Vec<u8>, bool) = match r.below(10) {
            0 | 1 => ((0..r.range(0, 64)).map(|_| r.below(256) as u8).collect(), false),
            2 | 3 => {
                // valid version + random command/status + random tail
                let mut v = vec![PROTOCOL_VERSION, r.below(256) as u8];
                v.extend((0..r.range(0, 40)).map(|_| r.below(256) as u8));
                (v, true)
            }
            4 | 5 => {
                // truncation of a valid encoding at every offset class
                let b = if r.chance(1, 2) { gen_request(&mut r).to_bytes() } else { gen_response(&mut r).to_bytes() };
                let k = r.usize(b.len().max(1));
                (b[..k].to_vec(), false)
            }
            6 | 7 => {
                // a valid Rows response with one length/count field replaced by an extreme
                let mut b = gen_response(&mut r).to_bytes();
                if b.len() >= 6 {
                    let pos = 2 + 4 * r.usize((b.len() - 2) / 4);
                    let ext = *r.pick(&[0xFFFF_FFFFu32, 0x7FFF_FFFF, 0x0100_0000, 0x0001_0000, 0x8000_0000]);
                    if pos + 4 <= b.len() {
                        b[pos..pos + 4].copy_from_slice(&ext.to_le_bytes());
                    }
                }
                (b, true)
            }
            8 => {
                // Rows header with extreme col_count / row_count and nothing else
                let mut v = vec![PROTOCOL_VERSION, 0x02];
                v.extend_from_slice(&r.pick(&[0u32, 1, 0xFFFF_FFFF, 0x4000_0000]).to_le_bytes());
                v.extend_from_slice(&r.pick(&[0u32, 1, 0xFFFF_FFFF, 0x4000_0000]).to_le_bytes());
                (v, true)
            }
            _ => {
                // single byte flips of a valid encoding
                let mut b = gen_response(&mut r).to_bytes();
                if !b.is_empty() {
                    let k = r.usize(b.len());
                    b[k] ^= 1 << r.below(8);
                }
                (b, true)
            }
        };
        report::eval(Some(fnv(&bytes)));
        report::count("garbage_inputs", 1);
        let b1 = bytes.clone();
        if let Some(res) = guarded("Request::from_bytes", dangerous, &bytes, move || Request::from_bytes(&b1).is_ok()) {
            report::count(if res { "garbage.request.accepted" } else { "garbage.request.rejected" }, 1);
        }
        let b2 = bytes.clone();
        if let Some(res) = guarded("Response::from_bytes", dangerous, &bytes, move || Response::from_bytes(&b2).is_ok()) {
            report::count(if res { "garbage.response.accepted" } else { "garbage.response.rejected" }, 1);
        }
        let b3 = bytes.clone();
        if let Some(res) = guarded("read_message", false, &bytes, move || read_message(&mut Cursor::new(&b3)).is_ok()) {
            report::count(if res { "garbage.frame.accepted" } else { "garbage.frame.rejected" }, 1);
        }
    }
}
