//! A tiny script language over the public API, shared by the development probe, the known-finding
//! witnesses (corpus/<ID>/*.wit) and the replay of recorded cases.
//!
//!   <sql>                          autocommit statement
//!   @<name> begin|commit|rollback|drop      session control
//!   @<name> <sql>                  statement inside session <name>
//!   @flush | @vacuum | @analyze | @reopen | @explain <sql> | @batch a;;b;;c
//!   @burn <n> <sql>                the statement n times
//!   @cfg cache=<n> page=<n> pool=<n>    (first line only) database configuration
//!
//! Every step produces one canonical outcome string (`Out::show`).
use crate::dbx::*;
use std::collections::HashMap;

pub struct Runner {
    pub db: Dbx,
    pub sessions: HashMap<String, Sx>,
}

pub fn parse_cfg(line: &str) -> axmosdb::DBConfig {
    let mut page = 4096;
    let mut cache = 10000;
    let mut pool = 8;
    let mut min_keys = 3;
    let mut sib = 2;
    for kv in line.split_whitespace().skip(1) {
        if let Some((k, v)) = kv.split_once('=') {
            let n: usize = v.parse().unwrap_or(0);
            match k {
                "page" => page = n,
                "cache" => cache = n,
                "pool" => pool = n,
                "min_keys" => min_keys = n,
                "siblings" => sib = n,
                _ => {}
            }
        }
    }
    cfg(page, cache, pool, min_keys, sib)
}

impl Runner {
    pub fn new(c: axmosdb::DBConfig) -> Runner {
        Runner { db: Dbx::create(c), sessions: HashMap::new() }
    }

    pub fn step(&mut self, line: &str) -> String {
        let line = line.trim();
        if let Some(rest) = line.strip_prefix('@') {
            let (cmd, arg) = rest.split_once(' ').unwrap_or((rest, ""));
            match cmd {
                "flush" => format!("flush {:?}", self.db.flush()),
                "vacuum" => format!("vacuum {}", self.db.vacuum().map(|_| "ok".to_string()).unwrap_or_else(|e| format!("ERR {}", e))),
                "analyze" => format!("analyze {:?}", self.db.analyze()),
                "explain" => format!("explain {:?}", self.db.explain(arg)),
                "attach" => {
                    // open a copy of an existing database directory (e.g. one made by @snap) instead of the fresh one
                    self.sessions.clear();
                    let dir = fresh_dir("attach");
                    copy_dir(std::path::Path::new(arg), &dir);
                    match Dbx::open_in(dir, self.db.cfg) {
                        Ok(d) => {
                            self.db = d;
                            "attach ok".into()
                        }
                        Err(e) => format!("attach ERR {}", e),
                    }
                }
                "snap" => {
                    copy_dir(&self.db.dir, std::path::Path::new(arg));
                    format!("snap {}", arg)
                }
                "reopen" => {
                    self.sessions.clear();
                    let c = self.db.cfg;
                    format!("reopen {:?}", self.db.reopen(c))
                }
                "burn" => {
                    // @burn <n> <sql>: the statement n times (advances the transaction counter)
                    let (n, sql) = arg.split_once(' ').unwrap_or((arg, "SELECT 1"));
                    let n: usize = n.parse().unwrap_or(0);
                    for _ in 0..n {
                        let o = self.db.exec(sql);
                        if !o.is_ok() {
                            return format!("burn ERR {}", o.show());
                        }
                    }
                    crate::dbx::tick();
                    format!("burn {} ok", n)
                }
                "batch" => {
                    let v: Vec<&str> = arg.split(";;").collect();
                    match self.db.batch(&v) {
                        Ok(o) => format!("batch OK {}", o.iter().map(|x| x.show()).collect::<Vec<_>>().join(" | ")),
                        Err(e) => format!("batch ERR {}", e.chars().take(160).collect::<String>()),
                    }
                }
                name => {
                    let name = name.to_string();
                    match arg {
                        "begin" => match self.db.session() {
                            Ok(s) => {
                                self.sessions.insert(name.clone(), s);
                                "begin ok".to_string()
                            }
                            Err(e) => format!("begin ERR {}", e),
                        },
                        "commit" => match self.sessions.remove(&name) {
                            Some(s) => format!("commit {:?}", s.commit()),
                            None => "commit ERR no session".into(),
                        },
                        "rollback" => match self.sessions.remove(&name) {
                            Some(s) => format!("rollback {:?}", s.rollback()),
                            None => "rollback ERR no session".into(),
                        },
                        "drop" => {
                            self.sessions.remove(&name);
                            "dropped".into()
                        }
                        sql => match self.sessions.get_mut(&name) {
                            Some(s) => s.exec(sql).show(),
                            None => "ERR no session".into(),
                        },
                    }
                }
            }
        } else {
            self.db.exec(line).show()
        }
    }
}

/// A witness file: script lines, some followed by `--> <expected outcome>` lines (what the property
/// requires). Returns (name, steps) where steps = (line, expected?).
pub struct Witness {
    pub name: String,
    pub what: String,
    pub cfg: axmosdb::DBConfig,
    pub steps: Vec<(String, Option<String>)>,
}

pub fn parse_witness(name: &str, text: &str) -> Witness {
    let mut steps: Vec<(String, Option<String>)> = vec![];
    let mut what = String::new();
    let mut c = default_cfg();
    for l in text.lines() {
        let t = l.trim();
        if t.is_empty() {
            continue;
        }
        if let Some(w) = t.strip_prefix("-- what:") {
            what = w.trim().to_string();
        } else if let Some(e) = t.strip_prefix("-->") {
            if let Some(last) = steps.last_mut() {
                last.1 = Some(e.trim().to_string());
            }
        } else if t.starts_with("--") {
            continue;
        } else if t.starts_with("@cfg") {
            c = parse_cfg(t);
        } else {
            steps.push((t.to_string(), None));
        }
    }
    Witness { name: name.to_string(), what, cfg: c, steps }
}

/// Runs a witness; returns None if every expectation was met (finding did not reproduce), else the
/// first unmet expectation as (step line, expected, got).
pub fn run_witness(w: &Witness) -> Option<(String, String, String)> {
    let mut r = Runner::new(w.cfg);
    let mut res = None;
    for (line, exp) in &w.steps {
        let got = r.step(line);
        if let Some(e) = exp {
            if res.is_none() && !outcome_matches(&got, e) {
                res = Some((line.clone(), e.clone(), got));
            }
        }
    }
    let _ = take_panics();
    res
}

/// `expected` may be an exact outcome, `OK` (any non-error), `ERR` (any error), or `ROWS{a|b|c}`: the bag of rows
/// regardless of order.
pub fn outcome_matches(got: &str, expected: &str) -> bool {
    if expected == "OK" {
        return !got.contains("ERR");
    }
    if expected == "ERR" {
        return got.contains("ERR");
    }
    if let Some(body) = expected.strip_prefix("ROWS{").and_then(|b| b.strip_suffix('}')) {
        let mut want: Vec<String> = if body.is_empty() { vec![] } else { body.split('|').map(|s| format!("({})", s.trim())).collect() };
        want.sort();
        let mut have: Vec<String> = got.split(' ').skip(1).map(|s| s.to_string()).collect();
        have.sort();
        return got.starts_with("ROWS[") && want == have;
    }
    got == expected
}
