//! Per-process report (what was observed) + watchdog. The python driver merges shard reports,
//! classifies violations against known_findings.jsonl and writes the evidence file.
use crate::json::J;
use std::collections::{BTreeMap, BTreeSet};
use std::sync::Mutex;
use std::sync::atomic::{AtomicBool, AtomicU64, Ordering};
use std::time::{Duration, Instant};

#[derive(Default)]
pub struct Report {
    pub check: String,
    pub tier: String,
    pub seed: u64,
    pub shard: u64,
    pub evaluations: u64,
    pub hashes: BTreeSet<u64>,
    pub samples: Vec<J>,
    /// sig -> (count, first few {detail, case})
    pub violations: BTreeMap<String, (u64, Vec<J>)>,
    pub counters: BTreeMap<String, i64>,
    pub inconclusive: Vec<String>,
    pub notes: Vec<String>,
    pub about_to: Option<(String, String)>,
    pub out_path: String,
}

static REPORT: Mutex<Option<Report>> = Mutex::new(None);

pub fn init(check: &str, tier: &str, seed: u64, shard: u64, out_path: &str) {
    let mut r = Report::default();
    r.check = check.into();
    r.tier = tier.into();
    r.seed = seed;
    r.shard = shard;
    r.out_path = out_path.into();
    *REPORT.lock().unwrap() = Some(r);
}

fn with<R>(f: impl FnOnce(&mut Report) -> R) -> R {
    let mut g = REPORT.lock().unwrap_or_else(|e| e.into_inner());
    f(g.as_mut().expect("report initialised"))
}

/// One case was evaluated. `nontrivial_hash` = structural hash if the case is non-trivial by the check's rule.
pub fn eval(nontrivial_hash: Option<u64>) {
    with(|r| {
        r.evaluations += 1;
        if let Some(h) = nontrivial_hash {
            r.hashes.insert(h);
        }
    })
}

pub fn count(key: &str, n: i64) {
    with(|r| *r.counters.entry(key.to_string()).or_insert(0) += n)
}

pub fn set_max(key: &str, n: i64) {
    with(|r| {
        let e = r.counters.entry(key.to_string()).or_insert(n);
        if n > *e {
            *e = n;
        }
    })
}

pub fn sample(cap: usize, j: impl FnOnce() -> J) {
    with(|r| {
        if r.samples.len() < cap {
            let v = j();
            r.samples.push(v);
        }
    })
}

pub fn violation(sig: &str, detail: &str, case: J) {
    with(|r| {
        let e = r.violations.entry(sig.to_string()).or_insert((0, vec![]));
        e.0 += 1;
        if e.1.len() < 3 {
            e.1.push(J::obj().with("detail", detail).with("case", case));
        }
    })
}

pub fn violation_count() -> u64 {
    with(|r| r.violations.values().map(|v| v.0).sum())
}

pub fn inconclusive(why: &str) {
    with(|r| {
        if r.inconclusive.len() < 50 {
            r.inconclusive.push(why.to_string())
        }
    })
}

pub fn note(s: &str) {
    with(|r| {
        if r.notes.len() < 50 {
            r.notes.push(s.to_string())
        }
    })
}

/// Declare what is about to be attempted and flush the report, so that if the process dies (stack overflow, abort,
/// SIGSEGV) the driver can attribute the death: signature `<check>:process-died:<label>`.
pub fn about_to(label: &str, detail: &str) {
    let path = with(|r| {
        r.about_to = Some((label.to_string(), detail.to_string()));
        r.out_path.clone()
    });
    if !path.is_empty() {
        // a small sidecar file (cheap to rewrite) read by the driver only if this process dies
        let _ = std::fs::write(format!("{}.intent", path), J::obj().with("label", label).with("detail", detail).to_string());
    }
}

pub fn done_with() {
    with(|r| r.about_to = None);
}

pub fn to_json() -> J {
    with(|r| {
        let mut o = J::obj();
        o.set("check", &r.check).set("tier", &r.tier).set("seed", r.seed).set("shard", r.shard);
        o.set("evaluations", r.evaluations);
        o.set("distinct", r.hashes.len());
        o.set("samples", J::Arr(r.samples.clone()));
        let mut vs = vec![];
        for (sig, (n, ex)) in r.violations.iter() {
            vs.push(J::obj().with("sig", sig).with("count", *n).with("examples", J::Arr(ex.clone())));
        }
        o.set("violations", J::Arr(vs));
        let mut c = J::obj();
        for (k, v) in r.counters.iter() {
            c.set(k, *v);
        }
        o.set("counters", c);
        o.set("inconclusive", J::Arr(r.inconclusive.iter().map(|s| J::Str(s.clone())).collect()));
        o.set("notes", J::Arr(r.notes.iter().map(|s| J::Str(s.clone())).collect()));
        if let Some((l, d)) = &r.about_to {
            o.set("about_to", J::obj().with("label", l.as_str()).with("detail", d.as_str()));
        }
        o
    })
}

/// Write the report and the list of distinct hashes (`<out>.hashes`, 8 bytes LE each).
pub fn write() {
    let j = to_json();
    let (path, hashes) = with(|r| (r.out_path.clone(), r.hashes.iter().cloned().collect::<Vec<u64>>()));
    if path.is_empty() {
        println!("{}", j.to_string());
        return;
    }
    let mut hb = Vec::with_capacity(hashes.len() * 8);
    for h in hashes {
        hb.extend_from_slice(&h.to_le_bytes());
    }
    let _ = std::fs::write(format!("{}.hashes", path), hb);
    let _ = std::fs::remove_file(format!("{}.intent", path));
    let tmp = format!("{}.tmp", path);
    std::fs::write(&tmp, j.to_string()).expect("write report");
    std::fs::rename(&tmp, &path).expect("rename report");
}

// ---------------------------------------------------------------------------------------------
// Watchdog: a call that does not return is a *hang* only if the whole process made no progress
// (no CPU time consumed by any thread, no tap/yield/tick progress) over the observation window;
// otherwise it is reported as inconclusive (slow machine).

static WD_DEADLINE_MS: AtomicU64 = AtomicU64::new(0); // 0 = disarmed; else ms since START
static WD_STARTED: AtomicBool = AtomicBool::new(false);
static WD_STRICT: AtomicBool = AtomicBool::new(false);
static WD_LABEL: Mutex<String> = Mutex::new(String::new());
static START: Mutex<Option<Instant>> = Mutex::new(None);

fn now_ms() -> u64 {
    let mut g = START.lock().unwrap();
    let st = g.get_or_insert_with(Instant::now);
    st.elapsed().as_millis() as u64 + 1
}

pub fn arm(label: &str, secs: u64) {
    *WD_LABEL.lock().unwrap() = label.to_string();
    WD_DEADLINE_MS.store(now_ms() + secs * 1000, Ordering::SeqCst);
    if !WD_STARTED.swap(true, Ordering::SeqCst) {
        std::thread::Builder::new().name("axv-watchdog".into()).spawn(watchdog_loop).unwrap();
    }
}

/// Like `arm`, for steps known to take milliseconds (opening one crash image): a process that burns CPU for 30 s
/// after the deadline without a single harness tick, file I/O or yield point is reported as a spinning hang
/// instead of "slow but progressing".
pub fn arm_strict(label: &str, secs: u64) {
    WD_STRICT.store(true, Ordering::SeqCst);
    arm(label, secs);
}

pub fn disarm() {
    WD_STRICT.store(false, Ordering::SeqCst);
    WD_DEADLINE_MS.store(0, Ordering::SeqCst);
}

fn cpu_ticks() -> u64 {
    // sum of utime+stime over all threads except the watchdog itself
    let mut total = 0u64;
    if let Ok(rd) = std::fs::read_dir("/proc/self/task") {
        for e in rd.flatten() {
            if let Ok(s) = std::fs::read_to_string(e.path().join("stat")) {
                if s.contains("(axv-watchdog)") {
                    continue;
                }
                if let Some(i) = s.rfind(')') {
                    let f: Vec<&str> = s[i + 2..].split(' ').collect();
                    // fields after comm: state(0) ... utime is index 11, stime 12
                    if f.len() > 12 {
                        total += f[11].parse::<u64>().unwrap_or(0) + f[12].parse::<u64>().unwrap_or(0);
                    }
                }
            }
        }
    }
    total
}

fn thread_states() -> String {
    let mut v = vec![];
    if let Ok(rd) = std::fs::read_dir("/proc/self/task") {
        for e in rd.flatten() {
            if let Ok(s) = std::fs::read_to_string(e.path().join("stat")) {
                if let (Some(a), Some(b)) = (s.find('('), s.rfind(')')) {
                    let st = s[b + 2..].chars().next().unwrap_or('?');
                    let wchan = std::fs::read_to_string(e.path().join("wchan")).unwrap_or_default();
                    v.push(format!("{}:{}:{}", &s[a + 1..b], st, wchan.trim()));
                }
            }
        }
    }
    v.sort();
    let mut agg: BTreeMap<String, usize> = BTreeMap::new();
    for x in v {
        *agg.entry(x).or_default() += 1;
    }
    agg.iter().map(|(k, n)| format!("{}x{}", k, n)).collect::<Vec<_>>().join(" ")
}

fn progress_snapshot() -> (u64, u64, u64) {
    (
        cpu_ticks(),
        crate::dbx::PROGRESS.load(Ordering::Relaxed),
        axmosdb::verif::io_tap::mutation_count() + axmosdb::verif::io_tap::read_count() + axmosdb::verif::sched::hits().iter().sum::<u64>(),
    )
}

/// Hook invoked when a hang is declared: (label, thread states) -> recorded by the check as it wishes.
pub static ON_HANG_SIG: Mutex<Option<String>> = Mutex::new(None);

fn watchdog_loop() {
    loop {
        std::thread::sleep(Duration::from_millis(250));
        let dl = WD_DEADLINE_MS.load(Ordering::SeqCst);
        if dl == 0 || now_ms() < dl {
            continue;
        }
        // deadline passed: observe progress for 6 s
        let a = progress_snapshot();
        std::thread::sleep(Duration::from_secs(3));
        if WD_DEADLINE_MS.load(Ordering::SeqCst) != dl {
            continue; // the call returned meanwhile
        }
        let b = progress_snapshot();
        std::thread::sleep(Duration::from_secs(3));
        if WD_DEADLINE_MS.load(Ordering::SeqCst) != dl {
            continue;
        }
        let c = progress_snapshot();
        let label = WD_LABEL.lock().unwrap().clone();
        let states = thread_states();
        // no progress = no harness call returned, no file I/O and no yield point was passed for 6 s, and the process
        // burnt less than 0.3 s of CPU in that window (idle pool workers wake up every 100 ms and cost a few ticks)
        let stalled = a.1 == c.1 && a.2 == c.2 && c.0.saturating_sub(a.0) < 30;
        let _ = b;
        if stalled {
            let sig = ON_HANG_SIG.lock().unwrap().clone().unwrap_or_else(|| "hang".into());
            let check = with(|r| r.check.clone());
            violation(
                &format!("{}:hang:{}", check, sig),
                &format!("call did not return and the process made no progress for 6 s (no harness call returned, no I/O, no yield point passed, < 0.3 s CPU); threads: {}", states),
                J::obj().with("label", label.as_str()),
            );
            count("hangs", 1);
        } else if WD_STRICT.load(Ordering::SeqCst) && a.1 == c.1 && a.2 == c.2 && {
            // CPU is burning but nothing else moves: watch 24 s more
            std::thread::sleep(Duration::from_secs(24));
            let d = progress_snapshot();
            WD_DEADLINE_MS.load(Ordering::SeqCst) == dl && d.1 == a.1 && d.2 == a.2
        } {
            let sig = ON_HANG_SIG.lock().unwrap().clone().unwrap_or_else(|| "hang".into());
            let check = with(|r| r.check.clone());
            violation(
                &format!("{}:hang:spinning:{}", check, sig),
                &format!("call did not return; for 30 s after its deadline the process burnt CPU without a harness tick, file I/O or yield point; threads: {}", states),
                J::obj().with("label", label.as_str()),
            );
            count("hangs", 1);
        } else {
            inconclusive(&format!("watchdog: '{}' exceeded its deadline but the process was still making progress ({:?} -> {:?}); threads: {}", label, a, c, states));
        }
        write();
        // exit code 3 tells the driver that this shard stopped early (its report is still valid)
        std::process::exit(3);
    }
}
