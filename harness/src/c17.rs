//! C17 — the write-ahead log returns exactly what was appended. Sequences of append / force / reopen / truncate
//! through the `verif` facade on a real log file; after every force and every reopen the reader (read-ahead 1, 2, 4,
//! 16 blocks) must return exactly the records appended since the last truncation that a force covered: same order,
//! strictly increasing LSNs, identical tid / kind / ids / payloads, nothing else.
use crate::dbx::*;
use crate::json::J;
use crate::report;
use crate::rng::{Rng, fnv};
use axmosdb::verif::facade::{VRecord, VWal};

const KINDS: &[u8] = &[0x00, 0x01, 0x02, 0x03, 0x06, 0x07, 0x08, 0x09, 0x0A, 0x0B];

fn gen_record(r: &mut Rng, lsn: u64, max: usize, profile: u32) -> VRecord {
    let kind = *r.pick(KINDS);
    // open finding (witness below): records within 192 bytes of max_record_size() are refused although the size check
    // accepts them; the clean stratum stays 256 bytes below the advertised maximum
    let budget = max.saturating_sub(256);
    let total = match profile {
        0 => *r.pick(&[0usize, 1, 7, 8, 9, 64, 100]),
        1 => *r.pick(&[100usize, 500, 1000, 4000]),
        2 => *r.pick(&[4000usize, 9000, 20000, budget / 2 + 1]),
        3 => *r.pick(&[budget, budget - 1, budget - 7, budget - 8, budget / 2, 0, 8]),
        _ => r.range(0, 6000) as usize,
    }
    .min(budget);
    let undo_len = if matches!(kind, 0x06 | 0x07 | 0x09 | 0x0A | 0x0B) { r.usize(total + 1) } else { 0 };
    let redo_len = if matches!(kind, 0x00 | 0x01 | 0x02 | 0x03) { 0 } else { total - undo_len };
    let undo_len = if matches!(kind, 0x00 | 0x01 | 0x02 | 0x03) { 0 } else { undo_len };
    let fill = |n: usize, salt: u64| -> Vec<u8> { (0..n).map(|i| ((i as u64).wrapping_mul(31).wrapping_add(salt * 7 + lsn)) as u8).collect() };
    VRecord {
        lsn,
        tid: r.range(1, 9) as u64,
        prev_lsn: if r.chance(1, 3) { None } else { Some(lsn.saturating_sub(r.range(1, 5) as u64)) },
        object_id: if matches!(kind, 0x00 | 0x01 | 0x02 | 0x03) { None } else { Some(r.range(0, 5) as u64) },
        row_id: if matches!(kind, 0x00 | 0x01 | 0x02 | 0x03) { None } else { Some(r.range(0, 100000) as u64) },
        kind,
        undo: fill(undo_len, 1),
        redo: fill(redo_len, 2),
    }
}

fn short(r: &VRecord) -> String {
    format!("lsn={} tid={} kind={:#x} undo={}B redo={}B", r.lsn, r.tid, r.kind, r.undo.len(), r.redo.len())
}

pub fn run_sequence(r: &mut Rng, nops: usize, profile: u32) -> bool {
    let dir = fresh_dir("wal");
    let path = dir.join("axmos.log");
    let mut ops: Vec<String> = vec![];
    let mut atoms: Vec<String> = vec![format!("profile.{}", profile)];
    let fail = |kind: &str, detail: String, ops: &Vec<String>, atoms: &Vec<String>| {
        let _ = take_panics();
        let mut a = atoms.clone();
        a.sort();
        a.dedup();
        report::violation(&format!("C17:{}:[{}]", kind, a.join(",")), &detail, J::obj().with("kind", "wal-ops").with("ops_tail", J::Arr(ops.iter().rev().take(14).rev().map(|s| J::Str(s.clone())).collect())).with("ops_total", ops.len()));
    };
    let mut wal = match VWal::create(&path) {
        Ok(w) => w,
        Err(e) => {
            fail("create-failed", e, &ops, &atoms);
            return false;
        }
    };
    let max = wal.max_record_size();
    let mut appended: Vec<VRecord> = vec![]; // since last truncate
    let mut forced = 0usize; // prefix of `appended` covered by a force
    let mut lsn = 0u64;
    let mut ok = true;
    let res = std::panic::catch_unwind(std::panic::AssertUnwindSafe(|| {
        for _ in 0..nops {
            tick();
            let k = r.below(20);
            if k < 12 {
                lsn += 1;
                let rec = gen_record(r, lsn, max, profile);
                ops.push(format!("push {}", short(&rec)));
                match wal.push(&rec) {
                    Ok(()) => appended.push(rec),
                    Err(e) => {
                        fail("append-refused", format!("a record of {} payload bytes (limit {}) was refused: {}", rec.undo.len() + rec.redo.len(), max, e), &ops, &atoms);
                        return false;
                    }
                }
                report::count("appends", 1);
            } else if k < 13 {
                // one byte too large must be refused, and refusing must not disturb the log
                lsn += 1;
                let mut rec = gen_record(r, lsn, max, 0);
                rec.kind = 0x08;
                rec.undo = vec![];
                rec.redo = vec![7u8; max + 8];
                ops.push(format!("push-oversized {}", short(&rec)));
                if wal.push(&rec).is_ok() {
                    fail("oversized-accepted", format!("a record larger than max_record_size() = {} was accepted", max), &ops, &atoms);
                    return false;
                }
                report::count("oversized_refused", 1);
            } else if k < 17 {
                ops.push("force".into());
                if let Err(e) = wal.flush() {
                    fail("force-failed", e, &ops, &atoms);
                    return false;
                }
                forced = appended.len();
                report::count("forces", 1);
                if wal.stats().1 > 1 {
                    atoms.push("log.beyond_block0".into());
                    report::count("forces_beyond_block0", 1);
                }
            } else if k < 19 {
                ops.push("reopen".into());
                // Drop forces the log
                drop(std::mem::replace(&mut wal, match VWal::create(dir.join("tmp.log")) {
                    Ok(w) => w,
                    Err(_) => return false,
                }));
                forced = appended.len();
                wal = match VWal::open(&path) {
                    Ok(w) => w,
                    Err(e) => {
                        fail("reopen-failed", e, &ops, &atoms);
                        return false;
                    }
                };
                atoms.push("op.reopen".into());
                report::count("reopens", 1);
            } else {
                ops.push("truncate".into());
                if let Err(e) = wal.truncate() {
                    fail("truncate-failed", e, &ops, &atoms);
                    return false;
                }
                appended.clear();
                forced = 0;
                atoms.push("op.truncate".into());
                report::count("truncations", 1);
                continue; // nothing on disk to read until the next force
            }
            // reader check after force / reopen
            if ops.last().map(|o| o == "force" || o == "reopen").unwrap_or(false) {
                let ra = *r.pick(&[1usize, 2, 4, 16]);
                match wal.read_all(ra) {
                    Ok(got) => {
                        let want = &appended[..forced];
                        report::count("reader_checks", 1);
                        report::count("records_compared", want.len() as i64);
                        if got.len() != want.len() || got.iter().zip(want.iter()).any(|(a, b)| a != b) {
                            let kind = if got.len() < want.len() {
                                "reader-misses-records"
                            } else if got.len() > want.len() {
                                "reader-returns-phantoms"
                            } else {
                                "reader-record-differs"
                            };
                            let first = got.iter().zip(want.iter()).position(|(a, b)| a != b).unwrap_or(got.len().min(want.len()));
                            fail(kind, format!("read-ahead {}: reader returned {} records, {} were appended and forced; first difference at index {} (got {:?}, want {:?})", ra, got.len(), want.len(), first, got.get(first).map(short), want.get(first).map(short)), &ops, &atoms);
                            return false;
                        }
                        // LSNs strictly increasing
                        if got.windows(2).any(|w| w[0].lsn >= w[1].lsn) {
                            fail("lsn-not-increasing", "reader output has non-increasing LSNs".into(), &ops, &atoms);
                            return false;
                        }
                    }
                    Err(e) => {
                        fail("reader-error", e, &ops, &atoms);
                        return false;
                    }
                }
            }
        }
        true
    }));
    match res {
        Ok(b) => ok = b,
        Err(_) => {
            let p = take_panics();
            fail(&format!("panic:{}", p.first().map(|x| panic_site(&x.location)).unwrap_or_default()), p.first().map(|x| x.message.clone()).unwrap_or_default(), &ops, &atoms);
            ok = false;
        }
    }
    drop(wal);
    rm_dir(&dir);
    ok
}

/// Witness of the open finding: a record accepted by the size check (total size <= max_record_size()) is refused.
fn witness_near_max() {
    let dir = fresh_dir("walw");
    if let Ok(mut w) = VWal::create(dir.join("axmos.log")) {
        let max = w.max_record_size();
        let rec = VRecord { lsn: 1, tid: 1, prev_lsn: None, object_id: Some(1), row_id: Some(1), kind: 0x08, undo: vec![], redo: vec![1u8; max - 136] };
        report::count("witnesses_run", 1);
        match w.push(&rec) {
            Err(e) => report::violation("C17:witness:record_near_max_refused", &format!("a record with {} payload bytes (max_record_size() = {}) is refused: {}", max - 136, max, e), J::Null),
            Ok(()) => report::note("known finding witness C17:record_near_max_refused did not reproduce"),
        }
    }
    rm_dir(&dir);
}

pub fn run(seed: u64, tier: &str, shard: u64) {
    if shard == 0 {
        witness_near_max();
    }
    let n = if tier == "thorough" { 3000 } else { 150 };
    let mut master = Rng::new(seed ^ shard.wrapping_mul(0xC17C_17C1_7C17_C17C));
    for i in 0..n {
        let mut r = master.fork(i);
        let profile = (i % 5) as u32;
        let nops = *r.pick(&[20usize, 60, 200]);
        report::arm("C17 sequence", 300);
        let ok = run_sequence(&mut r, nops, profile);
        report::disarm();
        report::eval(Some(fnv(format!("{}{}{}{}", seed, shard, i, nops).as_bytes())));
        if ok && i < 3 {
            report::sample(3, || J::obj().with("profile", profile as i64).with("ops", nops).with("verdict", "after every force / reopen the reader returned exactly the forced records"));
        }
    }
}
