//! E1 crashsim — C01 / C02 / C08. A history runs once with the I/O tap recording every file mutation in the order the
//! calls returned, interleaved with CALL / ACK markers of the client. Then EVERY prefix of the mutation stream is
//! materialised as a crash image (process death: everything issued so far is in the files, nothing later is) and
//! opened by the real `Database::open`; the recovered contents are compared with the model state of exactly the
//! transactions acknowledged before that point (plus, possibly, the one in flight).
//!   missing rows            -> acked-lost        (C01)
//!   extra / partial rows    -> unacked-visible   (C02)
//!   open fails / unreadable -> open-failed       (C08); second-level images (crash inside recovery), idempotence
//! One engine, three checks: each check reports only its own class; the others are counted.
use crate::dbx::*;
use crate::json::J;
use crate::report;
use crate::rng::{Rng, fnv};
use axmosdb::verif::io_tap::{self, IoEvent};
use axmosdb::{DBConfig, Database};
use std::collections::BTreeMap;
use std::path::{Path, PathBuf};

#[derive(Clone, Debug)]
pub enum Act {
    /// autocommit statement (sql, rows it inserts, ids it deletes)
    Auto(String, Vec<(i64, String)>, Vec<i64>),
    Begin(usize),
    In(usize, String, Vec<(i64, String)>, Vec<i64>),
    Commit(usize),
    Rollback(usize),
    Flush,
    Vacuum,
}

impl Act {
    fn show(&self) -> String {
        match self {
            Act::Auto(s, ..) => s.chars().take(90).collect(),
            Act::Begin(i) => format!("@s{} begin", i),
            Act::In(i, s, ..) => format!("@s{} {}", i, s.chars().take(80).collect::<String>()),
            Act::Commit(i) => format!("@s{} commit", i),
            Act::Rollback(i) => format!("@s{} rollback", i),
            Act::Flush => "@flush".into(),
            Act::Vacuum => "@vacuum".into(),
        }
    }
}

#[derive(Clone, Debug)]
pub struct Shape {
    /// shapes with open findings report under one coarse signature per class: `<check>:<class>:[shape.<name>]`
    pub dirty: bool,
    pub name: &'static str,
    pub steps: usize,
    pub row_bytes: &'static [usize],
    pub sessions: bool,
    pub rollback: bool,
    pub deletes: bool,
    pub flush: bool,
    pub vacuum: bool,
    pub cache: usize,
    /// statements of open sessions are spread between the other steps (checkpoints and autocommit statements happen while transactions are open)
    pub interleave: bool,
    /// DDL in the middle of the history: CREATE UNIQUE INDEX on the populated table, a second table
    pub ddl: bool,
    /// C02 signatures stay exact although the shape is dirty for C01 / C08
    pub clean_c02: bool,
}

fn payload(r: &mut Rng, sizes: &[usize]) -> String {
    let n = *r.pick(sizes);
    let c = *r.pick(&['p', 'q', 'r', 's']);
    std::iter::repeat(c).take(n).collect()
}

pub fn gen_history(r: &mut Rng, sh: &Shape) -> Vec<Act> {
    let mut acts = vec![];
    if sh.name == "long-log-small-rows" {
        // 220-300 small autocommit inserts push the log beyond its first 40 KiB block; then a checkpoint, then an
        // ordinary short history: the commits after the checkpoint are logged by a writer that has just been truncated
        let n = r.range(220, 300);
        for id in 1..=n {
            let p = format!("a{}{}", id, payload(r, &[8, 24]));
            acts.push(Act::Auto(format!("INSERT INTO t VALUES ({}, '{}')", id, p), vec![(id, p)], vec![]));
        }
        acts.push(Act::Flush);
        let mut next_id = n + 1;
        for _ in 0..sh.steps {
            match r.below(6) {
                0 => acts.push(Act::Flush),
                1 => {
                    let id = r.range(1, n);
                    acts.push(Act::Auto(format!("DELETE FROM t WHERE id = {}", id), vec![], vec![id]));
                }
                _ => {
                    let p = format!("b{}{}", next_id, payload(r, sh.row_bytes));
                    acts.push(Act::Auto(format!("INSERT INTO t VALUES ({}, '{}')", next_id, p), vec![(next_id, p)], vec![]));
                    next_id += 1;
                }
            }
        }
        return acts;
    }
    if sh.name == "steal-and-rollback" {
        // a six-page cache and a read-only wide table: scanning it between the statements of a session pushes the
        // session's dirty page out to the data file (steal) before the session ends
        let scan = || Act::Auto("SELECT a, b FROM u".into(), vec![], vec![]);
        acts.push(Act::Auto("CREATE TABLE u (a BIGINT, b TEXT)".into(), vec![], vec![]));
        for i in 0..30 {
            acts.push(Act::Auto(format!("INSERT INTO u VALUES ({}, '{}')", i, "q".repeat(300)), vec![], vec![]));
        }
        let mut next_id = 1i64;
        for _ in 0..r.range(2, 5) {
            let p = format!("a{}{}", next_id, payload(r, sh.row_bytes));
            acts.push(Act::Auto(format!("INSERT INTO t VALUES ({}, '{}')", next_id, p), vec![(next_id, p)], vec![]));
            next_id += 1;
        }
        acts.push(Act::Flush);
        let mut sid = 0;
        for _ in 0..sh.steps {
            if r.chance(1, 2) {
                sid += 1;
                acts.push(Act::Begin(sid));
                for _ in 0..r.range(1, 3) {
                    let p = format!("t{}v{}{}", sid, next_id, payload(r, sh.row_bytes));
                    acts.push(Act::In(sid, format!("INSERT INTO t VALUES ({}, '{}')", next_id, p), vec![(next_id, p)], vec![]));
                    next_id += 1;
                    if r.chance(2, 3) {
                        acts.push(scan());
                    }
                }
                acts.push(if r.chance(3, 5) { Act::Rollback(sid) } else { Act::Commit(sid) });
            } else if r.chance(1, 2) {
                let p = format!("a{}{}", next_id, payload(r, sh.row_bytes));
                acts.push(Act::Auto(format!("INSERT INTO t VALUES ({}, '{}')", next_id, p), vec![(next_id, p)], vec![]));
                next_id += 1;
            } else {
                acts.push(scan());
            }
        }
        return acts;
    }
    let mut next_id = 1i64;
    let mut live: Vec<i64> = vec![]; // committed ids (model's view while generating)
    let mut sid = 0usize;
    let mut i = 0;
    // interleave mode: acts of open sessions waiting to be issued (front = next)
    let mut open: Vec<(Vec<Act>, Vec<i64>, bool)> = vec![];
    while i < sh.steps {
        i += 1;
        if sh.interleave && !open.is_empty() && r.chance(1, 2) {
            let j = r.usize(open.len());
            let a = open[j].0.remove(0);
            acts.push(a);
            if open[j].0.is_empty() {
                let (_, ids, committed) = open.remove(j);
                if committed {
                    live.extend(ids);
                }
            }
            continue;
        }
        let k = r.below(20);
        if sh.sessions && k < 5 {
            sid += 1;
            let will_rollback = sh.rollback && r.chance(2, 5);
            acts.push(Act::Begin(sid));
            let n = r.range(1, 3);
            let mut ins_ids = vec![];
            for _ in 0..n {
                let rows = r.range(1, 3);
                let mut vals = vec![];
                let mut ins = vec![];
                for _ in 0..rows {
                    let p = format!("t{}v{}{}", sid, next_id, payload(r, sh.row_bytes));
                    vals.push(format!("({}, '{}')", next_id, p));
                    ins.push((next_id, p));
                    ins_ids.push(next_id);
                    next_id += 1;
                }
                acts.push(Act::In(sid, format!("INSERT INTO t VALUES {}", vals.join(", ")), ins, vec![]));
            }
            if sh.interleave {
                // keep everything after Begin for later; up to three sessions open at once
                let at = acts.iter().rposition(|a| matches!(a, Act::Begin(_))).unwrap() + 1;
                let mut rest: Vec<Act> = acts.split_off(at);
                rest.push(if will_rollback { Act::Rollback(sid) } else { Act::Commit(sid) });
                if sh.name == "checkpoint-between-begin-and-write" {
                    // one session at a time: finish the others first, then BEGIN, checkpoint, and only then the writes
                    let begin = acts.pop().unwrap();
                    for (rest, ids, committed) in open.drain(..) {
                        acts.extend(rest);
                        if committed {
                            live.extend(ids);
                        }
                    }
                    acts.push(begin);
                    acts.push(Act::Flush);
                }
                open.push((rest, ins_ids, !will_rollback));
                if open.len() > 3 {
                    let (rest, ids, committed) = open.remove(0);
                    acts.extend(rest);
                    if committed {
                        live.extend(ids);
                    }
                }
            } else if will_rollback {
                acts.push(Act::Rollback(sid));
            } else {
                acts.push(Act::Commit(sid));
                live.extend(ins_ids);
            }
        } else if sh.flush && k == 5 {
            acts.push(Act::Flush);
        } else if sh.vacuum && k == 6 {
            acts.push(Act::Vacuum);
        } else if sh.deletes && k < 9 && !live.is_empty() {
            let id = live.remove(r.usize(live.len()));
            acts.push(Act::Auto(format!("DELETE FROM t WHERE id = {}", id), vec![], vec![id]));
        } else {
            let rows = r.range(1, 3);
            let mut vals = vec![];
            let mut ins = vec![];
            for _ in 0..rows {
                let p = format!("a{}{}", next_id, payload(r, sh.row_bytes));
                vals.push(format!("({}, '{}')", next_id, p));
                ins.push((next_id, p));
                live.push(next_id);
                next_id += 1;
            }
            acts.push(Act::Auto(format!("INSERT INTO t VALUES {}", vals.join(", ")), ins, vec![]));
        }
    }
    if sh.ddl {
        // DDL at the end, bracketed by checkpoints: the crash points inside the last checkpoint are the ones where the
        // data file already holds the new objects while the log still describes their creation (open finding elsewhere:
        // redo of INSERTs into a unique index is not idempotent, so no DML follows the index creation here)
        acts.push(Act::Flush);
        acts.push(Act::Auto("CREATE UNIQUE INDEX ix_t_id ON t(id)".into(), vec![], vec![]));
        if r.chance(1, 2) {
            acts.push(Act::Auto("CREATE TABLE u (a BIGINT, b TEXT)".into(), vec![], vec![]));
        }
        acts.push(Act::Flush);
    }
    // half of the sessions still open are finished, the others stay open at the end of the history (their rows must never appear)
    for (rest, _, _) in open {
        if r.chance(1, 2) {
            acts.extend(rest);
        }
    }
    acts
}

/// What the tap saw, reduced to what the enumeration needs.
#[derive(Clone, Debug)]
enum Ev {
    Mut(usize), // index into muts
    Call(usize),
    Ack(usize, bool),
}

#[derive(Clone, Debug)]
enum Mutation {
    Create(String),
    Write(String, u64, Vec<u8>),
    SetLen(String, u64),
}

fn fname(p: &str) -> String {
    Path::new(p).file_name().map(|s| s.to_string_lossy().to_string()).unwrap_or_default()
}

/// committed contents after a set of acked transactions
type Contents = BTreeMap<i64, String>;

pub struct Recorded {
    acts: Vec<Act>,
    evs: Vec<Ev>,
    muts: Vec<Mutation>,
    /// per act index: Some(effect) if the act is a transaction end that commits (ins, del)
    effects: Vec<Option<(Vec<(i64, String)>, Vec<i64>)>>,
    acked_ok: Vec<bool>,
    phase_of_mut: Vec<&'static str>,
    cfg: DBConfig,
}

/// Runs the history live with the tap armed.
pub fn record(acts: &[Act], cfg: DBConfig) -> Option<Recorded> {
    let dir = fresh_dir("live");
    io_tap::start();
    let db = match Database::create(dir.join(DB_FILE), cfg) {
        Ok(d) => d,
        Err(e) => {
            report::inconclusive(&format!("live create failed: {}", e));
            return None;
        }
    };
    io_tap::mark("CALL 0");
    let c = conv(db.execute("CREATE TABLE t (id BIGINT, s TEXT)").map_err(|e| e.to_string()));
    io_tap::mark(format!("ACK 0 {}", if c.is_ok() { "ok" } else { "err" }));
    let mut sessions: BTreeMap<usize, (axmosdb::tcp::session::Session, Vec<(i64, String)>, Vec<i64>)> = BTreeMap::new();
    let mut effects: Vec<Option<(Vec<(i64, String)>, Vec<i64>)>> = vec![Some((vec![], vec![]))];
    let mut acked_ok = vec![c.is_ok()];
    let mut all_acts = vec![Act::Auto("CREATE TABLE t (id BIGINT, s TEXT)".into(), vec![], vec![])];
    for (i, a) in acts.iter().enumerate() {
        let idx = i + 1;
        all_acts.push(a.clone());
        io_tap::mark(format!("CALL {}", idx));
        tick();
        let (ok, eff) = match a {
            Act::Auto(sql, ins, del) => {
                let o = db.execute(sql);
                (o.is_ok(), Some((ins.clone(), del.clone())))
            }
            Act::Begin(s) => match db.session() {
                Ok(se) => {
                    sessions.insert(*s, (se, vec![], vec![]));
                    (true, None)
                }
                Err(_) => (false, None),
            },
            Act::In(s, sql, ins, del) => match sessions.get_mut(s) {
                Some((se, i2, d2)) => {
                    let o = se.execute(sql);
                    if o.is_ok() {
                        i2.extend(ins.iter().cloned());
                        d2.extend(del.iter().cloned());
                    }
                    (o.is_ok(), None)
                }
                None => (false, None),
            },
            Act::Commit(s) => match sessions.remove(s) {
                Some((mut se, i2, d2)) => {
                    let r = se.commit_transaction();
                    drop(se); // like any client: the session object goes away after COMMIT
                    (r.is_ok(), Some((i2, d2)))
                }
                None => (false, None),
            },
            Act::Rollback(s) => match sessions.remove(s) {
                Some((mut se, _, _)) => {
                    let r = se.abort_transaction();
                    drop(se);
                    (r.is_ok(), None)
                }
                None => (false, None),
            },
            Act::Flush => (db.flush().is_ok(), None),
            Act::Vacuum => {
                sessions.clear();
                (db.vacuum().is_ok(), None)
            }
        };
        io_tap::mark(format!("ACK {} {}", idx, if ok { "ok" } else { "err" }));
        effects.push(if ok { eff } else { None });
        acked_ok.push(ok);
    }
    let raw = io_tap::take();
    // The tap is disarmed: whatever the handles do when they go away (implicit rollbacks, the closing checkpoint) is
    // not part of the recorded stream. They are dropped, not leaked: a leaked database keeps its worker threads, and
    // the thorough tier records hundreds of histories per process.
    let _ = std::panic::catch_unwind(std::panic::AssertUnwindSafe(move || {
        drop(sessions);
        drop(db);
    }));
    let _ = take_panics();
    let mut evs = vec![];
    let mut muts = vec![];
    let mut phase = vec![];
    let mut cur_act: Option<usize> = None;
    for e in raw {
        match e {
            IoEvent::Mark { text } => {
                let p: Vec<&str> = text.split(' ').collect();
                let n: usize = p[1].parse().unwrap_or(0);
                if p[0] == "CALL" {
                    cur_act = Some(n);
                    evs.push(Ev::Call(n));
                } else {
                    cur_act = None;
                    evs.push(Ev::Ack(n, p.get(2) == Some(&"ok")));
                }
            }
            IoEvent::Create { file } => {
                muts.push(Mutation::Create(fname(&file)));
                phase.push("create");
                evs.push(Ev::Mut(muts.len() - 1));
            }
            IoEvent::Write { file, offset, data } => {
                let f = fname(&file);
                let ph = match cur_act.and_then(|i| all_acts.get(i)) {
                    Some(Act::Flush) => "checkpoint",
                    Some(Act::Vacuum) => "vacuum",
                    Some(Act::Commit(_)) | Some(Act::Auto(..)) => {
                        if f == "axmos.log" { "commit-log-force" } else { "commit-page-write" }
                    }
                    Some(Act::Rollback(_)) => "rollback",
                    Some(_) => "in-transaction",
                    None => "between-calls",
                };
                muts.push(Mutation::Write(f, offset, data));
                phase.push(ph);
                evs.push(Ev::Mut(muts.len() - 1));
            }
            IoEvent::SetLen { file, len } => {
                muts.push(Mutation::SetLen(fname(&file), len));
                phase.push("log-truncate");
                evs.push(Ev::Mut(muts.len() - 1));
            }
            _ => {}
        }
    }
    if std::env::var("AXV_TRACE").is_ok() {
        for (i, e) in evs.iter().enumerate() {
            match e {
                Ev::Mut(m) => match &muts[*m] {
                    Mutation::Write(f, o, b) => eprintln!("{:4} m{} W {} off={} len={} [{}]", i, m + 1, f, o, b.len(), phase[*m]),
                    Mutation::SetLen(f, l) => eprintln!("{:4} T {} len={}", i, f, l),
                    Mutation::Create(f) => eprintln!("{:4} C {}", i, f),
                },
                Ev::Call(n) => eprintln!("{:4} CALL {} {}", i, n, all_acts[*n].show().chars().take(50).collect::<String>()),
                Ev::Ack(n, ok) => eprintln!("{:4} ACK {} {}", i, n, ok),
            }
        }
    }
    rm_dir(&dir);
    Some(Recorded { acts: all_acts, evs, muts, effects, acked_ok, phase_of_mut: phase, cfg })
}

fn apply_mut(files: &mut BTreeMap<String, Vec<u8>>, m: &Mutation) {
    match m {
        Mutation::Create(f) => {
            files.insert(f.clone(), vec![]);
        }
        Mutation::Write(f, off, b) => {
            let v = files.entry(f.clone()).or_default();
            let end = *off as usize + b.len();
            if v.len() < end {
                v.resize(end, 0);
            }
            v[*off as usize..end].copy_from_slice(b);
        }
        Mutation::SetLen(f, l) => {
            files.entry(f.clone()).or_default().resize(*l as usize, 0);
        }
    }
}

fn write_image(dir: &Path, files: &BTreeMap<String, Vec<u8>>) {
    let _ = std::fs::remove_dir_all(dir);
    std::fs::create_dir_all(dir).unwrap();
    for (f, b) in files {
        std::fs::write(dir.join(f), b).unwrap();
    }
}

#[derive(Debug, Clone, PartialEq)]
pub enum Opened {
    Contents(Contents),
    OpenFailed(String),
    Unreadable(String),
}

/// Open an image directory and read table t. `tap_recovery` records the recovery's own mutations.
fn open_image(dir: &Path, cfg: DBConfig, keep_open: bool) -> (Opened, Option<Database>) {
    let r = std::panic::catch_unwind(|| Database::open(dir.join(DB_FILE), cfg));
    tick();
    let db = match r {
        Err(_) => {
            let p = take_panics();
            return (Opened::OpenFailed(format!("panic {}", p.first().map(|x| panic_site(&x.location)).unwrap_or_default())), None);
        }
        Ok(Err(e)) => {
            let p = take_panics();
            let site = p.first().map(|x| format!(" [{}]", panic_site(&x.location))).unwrap_or_default();
            return (Opened::OpenFailed(format!("{}{}", e.to_string().chars().take(120).collect::<String>(), site)), None);
        }
        Ok(Ok(db)) => db,
    };
    let o = conv(db.execute("SELECT id, s FROM t").map_err(|e| e.to_string()));
    let res = match o {
        Out::Rows(rows) => {
            let mut c = Contents::new();
            let mut dup = false;
            for r in rows {
                let id = r[0].as_i().unwrap_or(-1) as i64;
                let s = match &r[1] {
                    V::T(s) => s.clone(),
                    o => o.show(),
                };
                if c.insert(id, s).is_some() {
                    dup = true;
                }
            }
            if dup { Opened::Unreadable("duplicate row ids".into()) } else { Opened::Contents(c) }
        }
        Out::Err(e) => {
            let p = take_panics();
            let site = p.first().map(|x| format!(" [{}]", panic_site(&x.location))).unwrap_or_default();
            Opened::Unreadable(format!("{}{}", e.chars().take(120).collect::<String>(), site))
        }
        o => Opened::Unreadable(o.show()),
    };
    if keep_open {
        (res, Some(db))
    } else {
        // Dropping the handle checkpoints into the scratch image, which is rewritten from the recorded stream before
        // its next use, so that is harmless; leaking it instead would leak its worker threads (thousands of images).
        let _ = std::panic::catch_unwind(std::panic::AssertUnwindSafe(move || drop(db)));
        let _ = take_panics();
        (res, None)
    }
}

fn err_kind(e: &str) -> String {
    let l = e.to_lowercase();
    if l.contains("panic") || l.contains("channel closed") {
        "panic".into()
    } else if l.contains("already exists") {
        "create-replayed".into()
    } else if l.contains("fill whole buffer") || l.contains("eof") {
        "short-file".into()
    } else if l.contains("not found") {
        "object-not-found".into()
    } else {
        "error".into()
    }
}

pub struct Tally {
    pub first_by_sig: BTreeMap<String, (String, J)>,
}

/// Enumerates every prefix; reports per-class divergences under `check` if they belong to it.
pub fn enumerate(rec: &Recorded, check: &str, shape: &Shape, seed_tag: &str, nested_budget: &mut usize) {
    let img_root = fresh_dir("img");
    let mut files: BTreeMap<String, Vec<u8>> = BTreeMap::new();
    // model walk
    let mut acked: Contents = Contents::new();
    let mut acked_deleted: std::collections::BTreeSet<i64> = Default::default();
    let mut table_created = false;
    let mut inflight: Option<usize> = None;
    let mut features: Vec<&str> = vec![];
    let mut seen_ckpt = false;
    let mut log_left_block0 = false;
    let mut seen_rollback = false;
    let mut seen_vacuum = false;
    // sessions holding acknowledged, still uncommitted writes; a checkpoint taken in that state is an open finding
    // (it writes those rows to the data file and truncates the log that could undo them)
    let mut open_writers: std::collections::BTreeSet<usize> = Default::default();
    let mut ckpt_with_uncommitted = false;
    let mut last_call = 0usize;
    // what was acknowledged when the last checkpoint completed: losing such a row means the data file was damaged,
    // losing a younger one means the log / redo lost it
    let mut at_last_ckpt: Contents = Contents::new();
    let mut open_idle: std::collections::BTreeSet<usize> = Default::default();
    let script: Vec<String> = rec.acts.iter().map(|a| a.show()).collect();
    let mut k = 0usize;
    for ev in &rec.evs {
        match ev {
            Ev::Call(n) => {
                inflight = Some(*n);
                last_call = *n;
                match rec.acts.get(*n) {
                    Some(Act::Flush) => {
                        seen_ckpt = true;
                        if !open_writers.is_empty() {
                            if !ckpt_with_uncommitted {
                                report::count("histories_with_checkpoint_over_uncommitted_writes(open finding)", 1);
                            }
                            ckpt_with_uncommitted = true;
                        } else if !open_idle.is_empty() {
                            report::count("checkpoints_with_open_idle_transaction", 1);
                        }
                    }
                    Some(Act::Vacuum) => {
                        seen_vacuum = true;
                        seen_ckpt = true
                    }
                    Some(Act::Commit(s)) | Some(Act::Rollback(s)) => {
                        open_writers.remove(s);
                        open_idle.remove(s);
                    }
                    _ => {}
                }
                if let Some(Act::Rollback(_)) = rec.acts.get(*n) {
                    seen_rollback = true;
                }
                continue;
            }
            Ev::Ack(n, ok) => {
                inflight = None;
                if *ok {
                    if let Some(Act::Flush) = rec.acts.get(*n) {
                        at_last_ckpt = acked.clone();
                    }
                    if let Some(Act::In(s, ..)) = rec.acts.get(*n) {
                        open_writers.insert(*s);
                        open_idle.remove(s);
                    }
                    if let Some(Act::Begin(s)) = rec.acts.get(*n) {
                        open_idle.insert(*s);
                    }
                    if *n == 0 {
                        table_created = true;
                    }
                    if let Some(Some((ins, del))) = rec.effects.get(*n) {
                        for (id, s) in ins {
                            acked.insert(*id, s.clone());
                        }
                        for id in del {
                            acked.remove(id);
                            acked_deleted.insert(*id);
                        }
                    }
                }
                continue;
            }
            Ev::Mut(mi) => {
                let m = &rec.muts[*mi];
                if let Mutation::Write(f, off, _) = m {
                    if f == "axmos.log" && *off > 0 {
                        log_left_block0 = true;
                    }
                }
                apply_mut(&mut files, m);
                k += 1;
            }
        }
        if !table_created {
            continue; // before the CREATE TABLE was acknowledged there is nothing to require
        }
        let phase = rec.phase_of_mut.get(k - 1).cloned().unwrap_or("?");
        features.clear();
        if seen_ckpt {
            features.push("after-checkpoint");
        }
        if log_left_block0 {
            features.push("log-left-block0");
        }
        if seen_rollback {
            features.push("after-rollback");
        }
        if seen_vacuum {
            features.push("after-vacuum");
        }
        let feat = features.join(",");
        let in_ckpt = phase == "checkpoint" || phase == "vacuum" || phase == "log-truncate";
        let dir = img_root.join("i");
        write_image(&dir, &files);
        let (opened, _) = open_image(&dir, rec.cfg, false);
        report::eval(Some(fnv(format!("{}|{}", seed_tag, k).as_bytes())));
        report::count("crash_images_opened", 1);
        report::count(&format!("crash_points.{}", phase), 1);
        if log_left_block0 {
            report::count("crash_images_after_log_left_block0", 1);
        }
        // expected: acked, or acked + the in-flight transaction if it is a commit in progress
        let mut alt: Option<Contents> = None;
        if let Some(n) = inflight {
            if let Some(Act::Auto(_, ins, del)) = rec.acts.get(n) {
                let mut c = acked.clone();
                for (id, s) in ins {
                    c.insert(*id, s.clone());
                }
                for id in del {
                    c.remove(id);
                }
                alt = Some(c);
            } else if let Some(Act::Commit(s)) = rec.acts.get(n) {
                // effects of the committing session: collect from its In acts
                let mut c = acked.clone();
                for a in &rec.acts {
                    if let Act::In(s2, _, ins, del) = a {
                        if s2 == s {
                            for (id, st) in ins {
                                c.insert(*id, st.clone());
                            }
                            for id in del {
                                c.remove(id);
                            }
                        }
                    }
                }
                alt = Some(c);
            }
        }
        let case = || {
            J::obj()
                .with("kind", "crash-image")
                .with("shape", shape.name)
                .with("history", J::Arr(script.iter().map(|s| J::Str(s.clone())).collect()))
                .with("crash_after_mutation", k)
                .with("of_mutations", rec.muts.len())
                .with("phase", phase)
                .with("in_flight", inflight.map(|n| script[n].clone()).unwrap_or_default())
        };
        match &opened {
            Opened::Contents(c) => {
                if *c == acked || alt.as_ref().map(|a| a == c).unwrap_or(false) {
                    report::count("images_consistent", 1);
                } else {
                    let best = alt.as_ref().unwrap_or(&acked);
                    // a row the in-flight transaction deletes may legitimately be gone already
                    let missing: Vec<i64> = acked.iter().filter(|(id, s)| c.get(id) != Some(s) && best.get(*id).is_some()).map(|(id, _)| *id).collect();
                    let extra_all: Vec<i64> = c.iter().filter(|(id, s)| acked.get(id) != Some(s) && best.get(id) != Some(s)).map(|(id, _)| *id).collect();
                    // a row whose DELETE was acknowledged and that is back is a lost acknowledged effect (C01), not an unacknowledged one
                    let resurrected: Vec<i64> = extra_all.iter().cloned().filter(|id| acked_deleted.contains(id)).collect();
                    // an acknowledged row that came back with other bytes is damaged acknowledged data (already in `missing`), not foreign data
                    let extra: Vec<i64> = extra_all.iter().cloned().filter(|id| !acked_deleted.contains(id) && !acked.contains_key(id)).collect();
                    let mut missing = missing;
                    missing.extend(resurrected.iter().cloned());
                    // a partially applied in-flight transaction shows as extra rows that are a strict subset of it
                    if !missing.is_empty() {
                        report::count("class.acked-lost", 1);
                        if check == "C01" {
                            let sig = if shape.dirty { format!("C01:acked-lost:[shape.{}]", shape.name) } else if in_ckpt { "C01:acked-lost:crash-inside-checkpoint".to_string() } else if ckpt_with_uncommitted { "C01:acked-lost:[ckpt-with-uncommitted-writes]".to_string() } else {
                                let older = missing.iter().any(|id| at_last_ckpt.contains_key(id));
                                format!("C01:acked-lost:{}:{}:[{}]", if older { "checkpointed-row" } else { "since-last-checkpoint" }, phase, feat)
                            };
                            report::violation(&sig, &format!("image after mutation {} ({}): {} acknowledged rows are missing (ids {:?}…); recovered {} rows, acknowledged {}", k, phase, missing.len(), &missing[..missing.len().min(5)], c.len(), acked.len()), case());
                        }
                    }
                    if !extra.is_empty() {
                        report::count("class.unacked-visible", 1);
                        if check == "C02" {
                            // who wrote the extra rows: rolled back, open, or partial in-flight
                            let who = extra_origin(rec, &extra, inflight, last_call);
                            let sig = if shape.dirty && !shape.clean_c02 { format!("C02:unacked-visible:{}:[shape.{}]", who, shape.name) } else if in_ckpt { "C02:unacked-visible:crash-inside-checkpoint".to_string() } else if ckpt_with_uncommitted { "C02:unacked-visible:[ckpt-with-uncommitted-writes]".to_string() } else { format!("C02:unacked-visible:{}:{}:[{}]", who, phase, feat) };
                            report::violation(&sig, &format!("image after mutation {} ({}): rows {:?}… are visible but were never acknowledged ({})", k, phase, &extra[..extra.len().min(5)], who), case());
                        }
                    }
                }
            }
            Opened::OpenFailed(e) | Opened::Unreadable(e) => {
                report::count("class.open-failed", 1);
                if check == "C08" {
                    let what = if matches!(opened, Opened::OpenFailed(_)) { "open-failed" } else { "unreadable-after-open" };
                    let sig = if shape.dirty { format!("C08:{}:[shape.{}]", what, shape.name) } else if in_ckpt { format!("C08:{}:crash-inside-checkpoint:{}", what, err_kind(e)) } else if ckpt_with_uncommitted { format!("C08:{}:{}:[ckpt-with-uncommitted-writes]", what, err_kind(e)) } else { format!("C08:{}:{}:{}:[{}]", what, err_kind(e), phase, feat) };
                    report::violation(&sig, &format!("image after mutation {} ({}): {}", k, phase, e), case());
                }
            }
        }
        // C08 nested level: crash inside the recovery of this image, and idempotence of a second open
        if check == "C08" && !shape.dirty && !ckpt_with_uncommitted && *nested_budget > 0 && matches!(opened, Opened::Contents(_)) && (k % 7 == 3) {
            *nested_budget -= 1;
            nested(&dir, &files, rec, &opened, phase, &feat, &case);
        }
    }
    rm_dir(&img_root);
}

fn extra_origin(rec: &Recorded, extra: &[i64], inflight: Option<usize>, upto: usize) -> &'static str {
    // find the act that inserted the first extra id
    let id = extra[0];
    for (i, a) in rec.acts.iter().enumerate() {
        match a {
            Act::In(s, _, ins, _) if ins.iter().any(|(x, _)| *x == id) => {
                // how did that session end?
                if rec.acked_ok.get(i) == Some(&false) {
                    return "failed-statement"; // the statement returned an error, its rows must never show
                }
                // only what had been called by the crash point counts
                let last = upto.max(i).min(rec.acts.len() - 1);
                for (j, b) in rec.acts.iter().enumerate().take(last + 1).skip(i) {
                    match b {
                        Act::Rollback(s2) if s2 == s => return if inflight == Some(j) { "rollback-in-flight" } else { "rolled-back" },
                        Act::Commit(s2) if s2 == s => {
                            return if inflight == Some(j) { "partial-in-flight" } else if rec.acked_ok.get(j) == Some(&false) { "commit-failed" } else { "committed-later-state" };
                        }
                        _ => {}
                    }
                }
                return "still-open";
            }
            Act::Auto(_, ins, _) if ins.iter().any(|(x, _)| *x == id) => return if rec.acked_ok.get(i) == Some(&true) { "later-statement" } else { "failed-statement" },
            _ => {}
        }
    }
    "unknown-writer"
}

/// Second-level crash points: record the mutations recovery itself issues on this image, then crash inside it.
fn nested(dir: &Path, files: &BTreeMap<String, Vec<u8>>, rec: &Recorded, first: &Opened, phase: &str, feat: &str, case: &dyn Fn() -> J) {
    write_image(dir, files);
    io_tap::start();
    let (again, db) = open_image(dir, rec.cfg, true);
    let evs = io_tap::take();
    drop(db); // clean close of the recovered database (checkpoint)
    if again != *first {
        report::violation("C08:recovery-not-deterministic", &format!("two recoveries of the same image gave different contents: {:?} vs {:?}", summary(first), summary(&again)), case());
        return;
    }
    // idempotence: after recover + clean close, a second open must give the same contents
    let (third, _) = open_image(dir, rec.cfg, false);
    report::count("idempotence_checks", 1);
    if third != *first {
        let where_ = if phase == "checkpoint" || phase == "vacuum" || phase == "log-truncate" { "crash-inside-checkpoint".to_string() } else { format!("{}:[{}]", phase, feat) };
        report::violation(&format!("C08:reopen-after-recovery-differs:{}", where_), &format!("recover, close, open: {:?} then {:?}", summary(first), summary(&third)), case());
    }
    // second-level images
    let mut f2 = files.clone();
    let rmuts: Vec<Mutation> = evs
        .into_iter()
        .filter_map(|e| match e {
            IoEvent::Write { file, offset, data } => Some(Mutation::Write(fname(&file), offset, data)),
            IoEvent::SetLen { file, len } => Some(Mutation::SetLen(fname(&file), len)),
            _ => None,
        })
        .collect();
    let d2 = dir.parent().unwrap().join("n");
    for (j, m) in rmuts.iter().enumerate() {
        apply_mut(&mut f2, m);
        write_image(&d2, &f2);
        let (o2, _) = open_image(&d2, rec.cfg, false);
        report::count("second_level_images_opened", 1);
        report::eval(None);
        match &o2 {
            Opened::Contents(_) if o2 == *first => {}
            Opened::Contents(_) => {
                let _ = (phase, feat);
                let where_ = if phase == "checkpoint" || phase == "vacuum" || phase == "log-truncate" { "crash-inside-checkpoint".to_string() } else { format!("{}:[{}]", phase, feat) };
                let _ = &where_;
                report::violation("C08:recovery-not-convergent", &format!("crash after mutation {} of {} inside recovery, then recovery: {:?}; uninterrupted recovery: {:?}", j + 1, rmuts.len(), summary(&o2), summary(first)), case());
                break;
            }
            Opened::OpenFailed(e) | Opened::Unreadable(e) => {
                let kind = match m {
                    Mutation::SetLen(..) => "after-log-truncate",
                    Mutation::Write(f, ..) if f == "axmos.log" => "after-log-write",
                    _ => "after-page-write",
                };
                let _ = &kind;
                report::violation(&format!("C08:open-failed-after-crash-in-recovery:{}", err_kind(e)), &format!("crash after mutation {} of {} inside recovery: {}", j + 1, rmuts.len(), e), case());
                break;
            }
        }
    }
    rm_dir(&d2);
}

fn summary(o: &Opened) -> String {
    match o {
        Opened::Contents(c) => format!("{} rows", c.len()),
        Opened::OpenFailed(e) => format!("open failed: {}", e),
        Opened::Unreadable(e) => format!("unreadable: {}", e),
    }
}

pub fn shapes() -> Vec<Shape> {
    vec![
        Shape { dirty: false, name: "small-autocommit", steps: 14, row_bytes: &[8, 40], sessions: false, rollback: false, deletes: true, flush: false, vacuum: false, cache: 10000, interleave: false, ddl: false, clean_c02: false },
        Shape { dirty: false, name: "sessions-commit", steps: 12, row_bytes: &[8, 60], sessions: true, rollback: false, deletes: true, flush: false, vacuum: false, cache: 10000, interleave: false, ddl: false, clean_c02: false },
        Shape { dirty: false, name: "sessions-rollback", steps: 12, row_bytes: &[8, 60], sessions: true, rollback: true, deletes: false, flush: false, vacuum: false, cache: 10000, interleave: false, ddl: false, clean_c02: false },
        Shape { dirty: false, name: "with-checkpoints", steps: 14, row_bytes: &[8, 60], sessions: true, rollback: false, deletes: true, flush: true, vacuum: false, cache: 10000, interleave: false, ddl: false, clean_c02: false },
        Shape { dirty: false, name: "interleaved-sessions", steps: 16, row_bytes: &[8, 60], sessions: true, rollback: true, deletes: true, flush: true, vacuum: false, cache: 10000, interleave: true, ddl: false, clean_c02: false },
        Shape { dirty: false, name: "checkpoint-between-begin-and-write", steps: 14, row_bytes: &[8, 60], sessions: true, rollback: true, deletes: true, flush: false, vacuum: false, cache: 10000, interleave: true, ddl: false, clean_c02: false },
        Shape { dirty: false, name: "with-ddl", steps: 8, row_bytes: &[8, 60], sessions: true, rollback: false, deletes: false, flush: false, vacuum: false, cache: 10000, interleave: false, ddl: true, clean_c02: false },
        Shape { dirty: false, name: "steal-and-rollback", steps: 10, row_bytes: &[8, 40], sessions: true, rollback: true, deletes: false, flush: false, vacuum: false, cache: 6, interleave: false, ddl: false, clean_c02: true },
        Shape { dirty: true, name: "long-log", steps: 60, row_bytes: &[600, 1200], sessions: false, rollback: false, deletes: false, flush: false, vacuum: false, cache: 10000, interleave: false, ddl: false, clean_c02: false },
        Shape { dirty: true, name: "small-cache-steal", steps: 40, row_bytes: &[300, 900], sessions: true, rollback: true, deletes: false, flush: false, vacuum: false, cache: 16, interleave: false, ddl: false, clean_c02: false },
        Shape { dirty: true, name: "with-vacuum", steps: 14, row_bytes: &[8, 60], sessions: true, rollback: false, deletes: true, flush: true, vacuum: true, cache: 10000, interleave: false, ddl: false, clean_c02: false },
        // last on purpose: recovery of some of its images kills the process on the unchanged tree (open finding)
        Shape { dirty: false, name: "long-log-small-rows", steps: 10, row_bytes: &[8, 40], sessions: true, rollback: false, deletes: true, flush: true, vacuum: false, cache: 10000, interleave: false, ddl: false, clean_c02: false },
    ]
}

pub fn run(check: &str, seed: u64, tier: &str, shard: u64, only_shape: Option<&str>) {
    let per_shape = if tier == "thorough" { 40 } else { 3 };
    let mut master = Rng::new(seed ^ shard.wrapping_mul(0xE1E1_E1E1_1234_5678));
    let per_shape_nested = if tier == "thorough" { 60 } else { 5 };
    for sh in shapes() {
        // second-level (crash inside recovery, recover-close-open) budget per shape, so that late shapes get their share
        let mut nested_budget = per_shape_nested;
        if let Some(o) = only_shape {
            if o != sh.name && o != "x" {
                continue;
            }
        }
        // the long histories cost ~900 images each: one per shard in the quick tier
        let per_shape = if sh.name == "long-log-small-rows" && tier != "thorough" { 1 } else if sh.name == "long-log-small-rows" { 6 } else { per_shape };
        for h in 0..per_shape {
            let mut r = master.fork(h * 131 + fnv(sh.name.as_bytes()) % 1000);
            let acts = gen_history(&mut r, &sh);
            let cfg = cfg(4096, sh.cache, 8, 3, 2);
            report::about_to(&format!("e1-{}", sh.name), &format!("seed {} shard {} history {}", seed, shard, h));
            report::arm(&format!("{} record {}", check, sh.name), 300);
            let rec = record(&acts, cfg);
            report::disarm();
            let Some(rec) = rec else { continue };
            report::count("histories", 1);
            report::count(&format!("histories.{}", sh.name), 1);
            report::count("io_mutations_recorded", rec.muts.len() as i64);
            report::count("acked_transactions", rec.acked_ok.iter().filter(|x| **x).count() as i64);
            *report::ON_HANG_SIG.lock().unwrap() = Some(format!("e1-{}", sh.name));
            report::arm_strict(&format!("{} enumerate {}", check, sh.name), if tier == "thorough" { 180 } else { 60 });
            enumerate(&rec, check, &sh, &format!("{}|{}|{}|{}", seed, shard, sh.name, h), &mut nested_budget);
            report::disarm();
            report::done_with();
            if h == 0 {
                report::sample(4, || J::obj().with("shape", sh.name).with("history_head", J::Arr(rec.acts.iter().take(6).map(|a| J::Str(a.show())).collect())).with("mutations", rec.muts.len()).with("every_prefix_opened", true));
            }
        }
    }
}
