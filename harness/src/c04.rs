//! E3 sched — C04 snapshot isolation. k small transaction programs over one table; one driver thread holds k
//! sessions and issues the statements in a chosen order, so every statement-level interleaving is exactly
//! reproducible. Families of program sets are enumerated exhaustively (all interleavings); more are sampled.
//! Oracle: an SI model (snapshot at begin + own writes; first committer wins on row-level write/write overlap)
//! predicts every read, every affected count, every commit outcome and the final committed state. Every written
//! value is unique, so a read names the writes it saw.
use crate::dbx::*;
use crate::json::J;
use crate::report;
use crate::rng::{Rng, fnv};
use std::collections::{BTreeMap, BTreeSet};

#[derive(Clone, Debug, PartialEq)]
pub enum Op {
    ReadAll,
    ReadKey(i64),
    Count,
    ReadRange(i64),
    Insert(i64),
    Delete(i64),
    Update(i64),
    Commit,
    Rollback,
}

impl Op {
    fn sql(&self, txn: usize) -> String {
        match self {
            Op::ReadAll => "SELECT id, v FROM t".into(),
            Op::ReadKey(k) => format!("SELECT id, v FROM t WHERE id = {}", k),
            Op::Count => "SELECT COUNT(*) FROM t".into(),
            Op::ReadRange(k) => format!("SELECT id, v FROM t WHERE id >= {}", k),
            Op::Insert(id) => format!("INSERT INTO t VALUES ({}, {})", id, txn as i64 * 1000 + id),
            Op::Delete(id) => format!("DELETE FROM t WHERE id = {}", id),
            Op::Update(id) => format!("UPDATE t SET v = {} WHERE id = {}", txn as i64 * 1000 + 500 + id, id),
            Op::Commit => "COMMIT".into(),
            Op::Rollback => "ROLLBACK".into(),
        }
    }
    fn atom(&self) -> &'static str {
        match self {
            Op::ReadAll | Op::ReadKey(_) | Op::Count | Op::ReadRange(_) => "op.read",
            Op::Insert(_) => "op.insert",
            Op::Delete(_) => "op.delete",
            Op::Update(_) => "op.update",
            Op::Commit => "txn.commit",
            Op::Rollback => "txn.rollback",
        }
    }
}

pub type Program = Vec<Op>;

const INITIAL: &[(i64, i64)] = &[(1, 10), (2, 20), (3, 30), (4, 40)];

#[derive(Clone, Default)]
struct Txn {
    snapshot: BTreeMap<i64, i64>,
    ins: BTreeMap<i64, i64>,
    del: BTreeSet<i64>,
    upd: BTreeMap<i64, i64>,
    begun_at: usize,
    done: bool,
}

impl Txn {
    fn view(&self) -> BTreeMap<i64, i64> {
        let mut v = self.snapshot.clone();
        for (k, x) in &self.upd {
            if v.contains_key(k) {
                v.insert(*k, *x);
            }
        }
        for k in &self.del {
            v.remove(k);
        }
        for (k, x) in &self.ins {
            v.insert(*k, *x);
        }
        v
    }
}

fn rows_of(o: &Out) -> Option<BTreeMap<i64, i64>> {
    let r = o.rows()?;
    let mut m = BTreeMap::new();
    for row in r {
        let id = row.first()?.as_i()? as i64;
        let v = row.get(1).and_then(|x| x.as_i()).unwrap_or(0) as i64;
        if m.insert(id, v).is_some() {
            return None;
        }
    }
    Some(m)
}

/// All interleavings of programs with the given lengths (as sequences of program indices).
pub fn interleavings(lens: &[usize]) -> Vec<Vec<usize>> {
    fn go(rem: &mut Vec<usize>, cur: &mut Vec<usize>, out: &mut Vec<Vec<usize>>) {
        if rem.iter().all(|x| *x == 0) {
            out.push(cur.clone());
            return;
        }
        for i in 0..rem.len() {
            if rem[i] > 0 {
                rem[i] -= 1;
                cur.push(i);
                go(rem, cur, out);
                cur.pop();
                rem[i] += 1;
            }
        }
    }
    let mut out = vec![];
    go(&mut lens.to_vec(), &mut vec![], &mut out);
    out
}

pub fn atoms_of(progs: &[Program]) -> Vec<String> {
    let mut a: BTreeSet<String> = BTreeSet::new();
    for p in progs {
        for o in p {
            a.insert(o.atom().to_string());
        }
    }
    // two programs writing (delete/update) the same pre-existing row
    let mut w: BTreeMap<i64, usize> = BTreeMap::new();
    for p in progs {
        let mut mine = BTreeSet::new();
        for o in p {
            if let Op::Delete(k) | Op::Update(k) = o {
                mine.insert(*k);
            }
        }
        for k in mine {
            *w.entry(k).or_default() += 1;
        }
    }
    if w.values().any(|n| *n > 1) {
        a.insert("ww.same_row".into());
    }
    a.into_iter().collect()
}

fn describe(progs: &[Program], order: &[usize]) -> J {
    let mut pos = vec![0usize; progs.len()];
    let mut sched = vec![];
    for p in order {
        sched.push(J::Str(format!("T{}: {}", p + 1, progs[*p][pos[*p]].sql(*p + 1))));
        pos[*p] += 1;
    }
    J::obj().with("kind", "schedule").with("initial", "t(id,v) = (1,10) (2,20) (3,30) (4,40)").with("schedule", J::Arr(sched))
}

/// Runs one interleaving; returns false on divergence (reported).
pub fn run_schedule(progs: &[Program], order: &[usize], dirty: &[&str]) -> bool {
    let db = Dbx::create(default_cfg());
    if db.exec("CREATE TABLE t (id BIGINT, v BIGINT)").is_err() {
        report::violation("C04:setup:create-failed:[]", "create", J::Null);
        return false;
    }
    let vals = INITIAL.iter().map(|(a, b)| format!("({}, {})", a, b)).collect::<Vec<_>>().join(", ");
    db.exec(&format!("INSERT INTO t VALUES {}", vals));
    let mut committed: BTreeMap<i64, i64> = INITIAL.iter().cloned().collect();
    // commit log: (step, written pre-existing row ids) for first-committer-wins
    let mut commit_log: Vec<(usize, BTreeSet<i64>)> = vec![];
    let mut txns: Vec<Txn> = vec![Txn::default(); progs.len()];
    let mut sess: Vec<Option<Sx>> = (0..progs.len()).map(|_| None).collect();
    let mut pos = vec![0usize; progs.len()];
    let atoms: Vec<String> = atoms_of(progs).into_iter().filter(|a| dirty.contains(&a.as_str())).collect();
    let fail = |oracle: &str, kind: &str, detail: String| {
        let _ = take_panics();
        report::violation(&format!("C04:{}:{}:[{}]", oracle, kind, atoms.join(",")), &detail, describe(progs, order));
    };
    for (step, p) in order.iter().enumerate() {
        let p = *p;
        let op = progs[p][pos[p]].clone();
        pos[p] += 1;
        if sess[p].is_none() && !txns[p].done {
            match db.session() {
                Ok(s) => {
                    sess[p] = Some(s);
                    txns[p].snapshot = committed.clone();
                    txns[p].begun_at = step;
                }
                Err(e) => {
                    fail("session", "begin-failed", e);
                    return false;
                }
            }
        }
        let sql = op.sql(p + 1);
        match &op {
            Op::ReadAll | Op::ReadKey(_) | Op::ReadRange(_) | Op::Count => {
                let o = sess[p].as_mut().unwrap().exec(&sql);
                let view = txns[p].view();
                let want: BTreeMap<i64, i64> = match &op {
                    Op::ReadKey(k) => view.iter().filter(|(id, _)| *id == k).map(|(a, b)| (*a, *b)).collect(),
                    Op::ReadRange(k) => view.iter().filter(|(id, _)| *id >= k).map(|(a, b)| (*a, *b)).collect(),
                    _ => view.clone(),
                };
                report::count("reads_checked", 1);
                if let Op::Count = op {
                    let got = o.rows().and_then(|r| r.first()).and_then(|r| r.first()).and_then(|v| v.as_i());
                    if got != Some(want.len() as i128) {
                        fail("si-read", "wrong-count", format!("step {} T{} `{}` => {} but its snapshot + own writes hold {} rows", step, p + 1, sql, o.show(), want.len()));
                        return false;
                    }
                } else {
                    match rows_of(&o) {
                        Some(got) if got == want => {}
                        _ => {
                            // classify the anomaly from the unique values
                            let got = rows_of(&o).unwrap_or_default();
                            let mut kind = "wrong-rows";
                            if got.iter().any(|(id, v)| !want.contains_key(id) && *v >= 1000) {
                                kind = "sees-foreign-write"; // uncommitted, later-committed or rolled-back insert/update of another txn
                            } else if want.iter().any(|(id, _)| !got.contains_key(id)) {
                                kind = "misses-visible-row"; // e.g. a row deleted by a concurrent txn disappears from the snapshot
                            } else if got.iter().any(|(id, v)| want.get(id).map(|w| w != v).unwrap_or(false)) {
                                kind = "wrong-version";
                            } else if got.keys().any(|id| !want.contains_key(id)) {
                                kind = "sees-deleted-row";
                            }
                            fail("si-read", kind, format!("step {} T{} `{}` => {} but snapshot-at-begin + own writes = {:?}", step, p + 1, sql, o.show(), want));
                            return false;
                        }
                    }
                }
            }
            Op::Insert(id) => {
                let o = sess[p].as_mut().unwrap().exec(&sql);
                if o != Out::Affected(1) {
                    fail("statement", "insert-failed", format!("step {} T{} `{}` => {}", step, p + 1, sql, o.show()));
                    return false;
                }
                txns[p].ins.insert(*id, (p as i64 + 1) * 1000 + id);
            }
            Op::Delete(id) => {
                let o = sess[p].as_mut().unwrap().exec(&sql);
                let visible = txns[p].view().contains_key(id);
                // a write/write conflict may legitimately be reported at the statement
                let conflict = commit_log.iter().any(|(s, w)| *s > txns[p].begun_at && w.contains(id));
                match &o {
                    Out::Affected(n) if *n == visible as u64 => {
                        if visible {
                            if txns[p].ins.remove(id).is_none() {
                                txns[p].del.insert(*id);
                            }
                        }
                    }
                    Out::Err(e) if conflict && crate::model::err_class(e) == "conflict" => {
                        report::count("conflicts_reported_at_statement", 1);
                    }
                    _ => {
                        fail("statement", "delete-count", format!("step {} T{} `{}` => {} but the row is {}visible to it", step, p + 1, sql, o.show(), if visible { "" } else { "not " }));
                        return false;
                    }
                }
            }
            Op::Update(id) => {
                let o = sess[p].as_mut().unwrap().exec(&sql);
                let visible = txns[p].view().contains_key(id);
                match &o {
                    Out::Affected(n) if *n == visible as u64 => {
                        if visible {
                            let nv = (p as i64 + 1) * 1000 + 500 + id;
                            if txns[p].ins.contains_key(id) {
                                txns[p].ins.insert(*id, nv);
                            } else {
                                txns[p].upd.insert(*id, nv);
                            }
                        }
                    }
                    _ => {
                        fail("statement", "update-count", format!("step {} T{} `{}` => {}", step, p + 1, sql, o.show()));
                        return false;
                    }
                }
            }
            Op::Commit => {
                let s = sess[p].take().unwrap();
                let r = s.commit();
                txns[p].done = true;
                let mine: BTreeSet<i64> = txns[p].del.iter().cloned().chain(txns[p].upd.keys().cloned()).collect();
                let conflict = commit_log.iter().any(|(st, w)| *st > txns[p].begun_at && !w.is_disjoint(&mine));
                match (r, conflict) {
                    (Ok(()), false) => {
                        for k in &txns[p].del {
                            committed.remove(k);
                        }
                        for (k, v) in &txns[p].upd {
                            if committed.contains_key(k) {
                                committed.insert(*k, *v);
                            }
                        }
                        for (k, v) in &txns[p].ins {
                            committed.insert(*k, *v);
                        }
                        commit_log.push((step, mine));
                        report::count("commits_checked", 1);
                    }
                    (Err(e), true) if crate::model::err_class(&e) == "conflict" => {
                        report::count("conflicts_reported_at_commit", 1);
                    }
                    (Ok(()), true) => {
                        fail("commit", "ww-both-commit", format!("step {} T{} committed although a concurrent transaction that wrote the same row committed first", step, p + 1));
                        return false;
                    }
                    (Err(e), _) => {
                        fail("commit", &format!("unexpected-error({})", crate::model::err_class(&e)), format!("step {} T{} COMMIT => {}", step, p + 1, e));
                        return false;
                    }
                }
            }
            Op::Rollback => {
                let s = sess[p].take().unwrap();
                txns[p].done = true;
                if let Err(e) = s.rollback() {
                    fail("rollback", "unexpected-error", e);
                    return false;
                }
            }
        }
    }
    // close whatever is still open (programs always end with Commit/Rollback, so nothing should be)
    for s in sess.iter_mut() {
        s.take();
    }
    // final committed state, read by a fresh transaction
    let o = db.exec("SELECT id, v FROM t");
    report::count("final_state_checks", 1);
    match rows_of(&o) {
        Some(got) if got == committed => true,
        _ => {
            fail("final-state", "wrong-rows", format!("fresh read after all transactions => {} but the committed transactions give {:?}", o.show(), committed));
            false
        }
    }
}

/// The fixed families enumerated exhaustively in every run.
pub fn families() -> Vec<(&'static str, Vec<Program>)> {
    use Op::*;
    vec![
        ("two inserters with reads", vec![vec![ReadAll, Insert(11), ReadAll, Commit], vec![ReadAll, Insert(21), ReadAll, Commit]]),
        ("inserter vs reader", vec![vec![Insert(11), Insert(12), Commit], vec![ReadAll, Count, ReadAll, Commit]]),
        ("rolled-back inserter vs reader", vec![vec![Insert(11), ReadAll, Rollback], vec![ReadAll, ReadRange(3), Count, Commit]]),
        ("deleter vs reader", vec![vec![ReadAll, Delete(2), ReadAll, Commit], vec![ReadAll, ReadKey(2), ReadAll, Commit]]),
        ("rolled-back deleter vs reader", vec![vec![Delete(3), ReadAll, Rollback], vec![ReadAll, Count, ReadKey(3), Commit]]),
        ("deleters of different rows", vec![vec![Delete(1), ReadAll, Commit], vec![Delete(4), ReadAll, Commit]]),
        ("insert+delete own row", vec![vec![Insert(11), Delete(11), ReadAll, Commit], vec![ReadAll, Insert(21), Commit]]),
        ("three transactions", vec![vec![Insert(11), ReadAll, Commit], vec![ReadAll, Delete(1), Commit], vec![ReadAll, Count, Commit]]),
        ("three writers", vec![vec![Insert(11), Count, Commit], vec![Insert(21), Count, Rollback], vec![Delete(2), Count, Commit]]),
        ("insert vs range reader", vec![vec![Insert(5), Insert(6), Commit], vec![ReadRange(3), ReadRange(3), Commit]]),
        ("delete and reinsert same id", vec![vec![Delete(2), Insert(2), ReadAll, Commit], vec![ReadKey(2), ReadKey(2), Commit]]),
        ("reader spanning two commits", vec![vec![Insert(11), Commit], vec![Insert(21), Commit], vec![ReadAll, ReadAll, ReadAll, Commit]]),
    ]
}

pub fn dirty_families() -> Vec<(&'static str, Vec<Program>)> {
    use Op::*;
    vec![
        ("two deleters of the same row", vec![vec![Delete(2), ReadAll, Commit], vec![Delete(2), ReadAll, Commit]]),
        ("updater vs reader", vec![vec![Update(2), ReadAll, Commit], vec![ReadAll, ReadKey(2), ReadAll, Commit]]),
    ]
}

pub const DIRTY: &[&str] = &["op.update", "ww.same_row"];

fn random_program(r: &mut Rng, txn: usize, allow_dirty: bool) -> Program {
    let n = r.range(2, 4);
    let mut p = vec![];
    let mut next_ins = txn as i64 * 10 + 1;
    for _ in 0..n {
        let k = r.below(10);
        let op = if k < 4 {
            match r.below(4) {
                0 => Op::ReadAll,
                1 => Op::ReadKey(r.range(1, 4)),
                2 => Op::Count,
                _ => Op::ReadRange(r.range(1, 4)),
            }
        } else if k < 7 {
            next_ins += 1;
            Op::Insert(next_ins + 10)
        } else if k < 9 || !allow_dirty {
            // each transaction deletes only "its own" pre-existing row in the clean stratum
            Op::Delete(if allow_dirty { r.range(1, 4) } else { (txn as i64 % 4) + 1 })
        } else {
            Op::Update(r.range(1, 4))
        };
        p.push(op);
    }
    p.push(if r.chance(1, 3) { Op::Rollback } else { Op::Commit });
    p
}

pub fn run(seed: u64, tier: &str, shard: u64, nshards: u64) {
    // exhaustive part, split over shards by schedule index
    let mut idx = 0u64;
    for (name, progs) in families() {
        let lens: Vec<usize> = progs.iter().map(|p| p.len()).collect();
        let all = interleavings(&lens);
        report::count("families_enumerated", if shard == 0 { 1 } else { 0 });
        for order in &all {
            idx += 1;
            if idx % nshards != shard {
                continue;
            }
            report::arm(&format!("C04 family '{}'", name), 120);
            let ok = run_schedule(&progs, order, DIRTY);
            report::disarm();
            report::eval(Some(fnv(format!("{}|{:?}", name, order).as_bytes())));
            report::count("schedules_exhaustive", 1);
            if ok {
                report::sample(2, || describe(&progs, order).with("family", name).with("verdict", "every read, count, commit outcome and the final state matched the SI model"));
            }
        }
    }
    // sampled part
    let n = if tier == "thorough" { 6000 } else { 250 };
    let mut master = Rng::new(seed ^ shard.wrapping_mul(0xC04C_04C0_4C04_C04C));
    for i in 0..n {
        let mut r = master.fork(i);
        let k = if r.chance(1, 3) { 3 } else { 2 };
        let progs: Vec<Program> = (0..k).map(|t| random_program(&mut r, t + 1, false)).collect();
        let lens: Vec<usize> = progs.iter().map(|p| p.len()).collect();
        // a random interleaving
        let mut rem = lens.clone();
        let mut order = vec![];
        while rem.iter().any(|x| *x > 0) {
            let c: Vec<usize> = (0..rem.len()).filter(|i| rem[*i] > 0).collect();
            let p = *r.pick(&c);
            rem[p] -= 1;
            order.push(p);
        }
        report::arm("C04 sampled schedule", 120);
        run_schedule(&progs, &order, DIRTY);
        report::disarm();
        report::eval(Some(fnv(format!("{:?}|{:?}", progs, order).as_bytes())));
        report::count("schedules_sampled", 1);
    }
}
