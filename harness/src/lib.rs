//! axv: runtime-monitoring harness for AxmosDB (see /verif/DESIGN.md).
pub mod c04;
pub mod c05;
pub mod c06;
pub mod c12;
pub mod c15;
pub mod c16;
pub mod c19;
pub mod dbx;
pub mod hist;
pub mod sqlgen;
pub mod json;
pub mod model;
pub mod report;
pub mod rng;
pub mod script;
pub mod witness;
