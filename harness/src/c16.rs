//! E7 fuzz — C16: any statement yields a result or an error, never a panic, never a hang, and after an error the
//! database holds exactly the data it held before and keeps answering.
//! Input classes: random bytes / printable soup / token soup / valid statements (full grammar) and their mutations and
//! truncations / nesting stressors / semantic stressors. Monitors: panic hook (any thread), watchdog (hang rule),
//! liveness probe, state-unchanged-after-error (the table is re-read after every failing statement).
use crate::dbx::*;
use crate::json::J;
use crate::model::*;
use crate::report;
use crate::rng::{Rng, fnv};
use crate::sqlgen::*;

const VOCAB: &[&str] = &[
    "SELECT", "FROM", "WHERE", "INSERT", "INTO", "VALUES", "UPDATE", "SET", "DELETE", "CREATE", "TABLE", "DROP", "ALTER", "ADD", "COLUMN", "INDEX", "UNIQUE", "AND", "OR", "NOT", "NULL", "IS",
    "IN", "BETWEEN", "LIKE", "ORDER", "BY", "GROUP", "HAVING", "LIMIT", "OFFSET", "JOIN", "LEFT", "RIGHT", "FULL", "CROSS", "INNER", "ON", "AS", "DISTINCT", "CASE", "WHEN", "THEN", "ELSE", "END",
    "EXISTS", "WITH", "UNION", "ASC", "DESC", "COUNT", "SUM", "MIN", "MAX", "AVG", "ABS", "LENGTH", "UPPER", "COALESCE", "NULLIF", "CAST", "TRUE", "FALSE", "DEFAULT", "PRIMARY", "KEY", "BEGIN",
    "COMMIT", "ROLLBACK", "t", "id", "a", "s", "d", "x", "(", ")", ",", ".", ";", "*", "=", "!=", "<>", "<", ">", "<=", ">=", "+", "-", "/", "%", "||", "'", "''", "'abc'", "0", "1", "-1", "2.5",
    "9223372036854775807", "1e308", "99999999999999999999", "\"", "--", "/*", "@", "#", "$", "?", "\\",
];

pub fn base_table() -> Table {
    Table {
        name: "t".into(),
        cols: vec![
            Col { name: "id".into(), ty: Ty::BigInt, not_null: false, default: None },
            Col { name: "a".into(), ty: Ty::Int, not_null: false, default: None },
            Col { name: "s".into(), ty: Ty::Text, not_null: false, default: None },
            Col { name: "d".into(), ty: Ty::Double, not_null: false, default: None },
        ],
        uniques: vec![],
        rows: vec![],
    }
}

fn tokens(sql: &str) -> Vec<String> {
    // a crude tokeniser for mutation purposes only
    let mut out = vec![];
    let mut cur = String::new();
    let mut in_str = false;
    for c in sql.chars() {
        if in_str {
            cur.push(c);
            if c == '\'' {
                in_str = false;
                out.push(std::mem::take(&mut cur));
            }
            continue;
        }
        if c == '\'' {
            if !cur.is_empty() {
                out.push(std::mem::take(&mut cur));
            }
            cur.push(c);
            in_str = true;
        } else if c.is_whitespace() {
            if !cur.is_empty() {
                out.push(std::mem::take(&mut cur));
            }
        } else if "(),*=<>+-/%".contains(c) {
            if !cur.is_empty() {
                out.push(std::mem::take(&mut cur));
            }
            out.push(c.to_string());
        } else {
            cur.push(c);
        }
    }
    if !cur.is_empty() {
        out.push(cur);
    }
    out
}

pub fn valid_statement(r: &mut Rng, st: &State) -> String {
    let lang = Lang::all();
    let mut g = Gen::new(r, &lang);
    let t = st.tables["t"].clone();
    let mut id = 100 + g.r.range(0, 1000) as i128;
    match g.r.below(10) {
        0..=5 => Stmt::Select(g.select(st)).sql(),
        6 => g.insert(&t, &mut id).sql(),
        7 => g.update(&t).sql(),
        _ => g.delete(&t).sql(),
    }
}

pub fn gen_input(r: &mut Rng, st: &State) -> (String, &'static str) {
    match r.below(100) {
        0..=7 => {
            let n = r.range(1, 60) as usize;
            let b: Vec<u8> = (0..n).map(|_| r.below(256) as u8).collect();
            (String::from_utf8_lossy(&b).to_string(), "random-bytes")
        }
        8..=15 => {
            let n = r.range(1, 80) as usize;
            ((0..n).map(|_| (32 + r.below(95) as u8) as char).collect(), "printable-soup")
        }
        16..=35 => {
            let n = r.range(1, 14) as usize;
            ((0..n).map(|_| r.pick(VOCAB).to_string()).collect::<Vec<_>>().join(" "), "token-soup")
        }
        36..=50 => (valid_statement(r, st), "valid"),
        51..=72 => {
            let mut t = tokens(&valid_statement(r, st));
            if t.is_empty() {
                return ("".into(), "mutated");
            }
            for _ in 0..r.range(1, 3) {
                let i = r.usize(t.len());
                match r.below(6) {
                    0 => {
                        t.remove(i);
                    }
                    1 => {
                        let x = t[i].clone();
                        t.insert(i, x);
                    }
                    2 => {
                        let j = r.usize(t.len());
                        t.swap(i, j);
                    }
                    3 => t[i] = r.pick(&["NULL", "99999999999999999999", "-9223372036854775808", "'x'", "1e400", "0", "nope", "t.nope", "2147483648"]).to_string(),
                    4 => t[i] = r.pick(VOCAB).to_string(),
                    _ => t.insert(i, r.pick(VOCAB).to_string()),
                }
                if t.is_empty() {
                    break;
                }
            }
            (t.join(" "), "mutated")
        }
        73..=80 => {
            let t = tokens(&valid_statement(r, st));
            let k = r.usize(t.len().max(1));
            (t[..k].join(" "), "truncated")
        }
        81..=88 => {
            // semantic stressors
            let v = [
                "SELECT a / 0 FROM t",
                "SELECT a % 0 FROM t",
                "SELECT id FROM t WHERE a / (a - a) > 1",
                "SELECT 9223372036854775807 + id FROM t",
                "SELECT a * 2147483647 * 2147483647 * 2147483647 FROM t",
                "SELECT ABS(NULL), LENGTH(NULL), UPPER(NULL) FROM t",
                "SELECT ABS(s), LENGTH(a), SQRT(s) FROM t",
                "SELECT CASE WHEN a > 0 THEN 1 ELSE 0 END FROM t",
                "SELECT a, COUNT(*) FROM t GROUP BY a HAVING COUNT(*) > 1",
                "SELECT id FROM t WHERE id IN (SELECT id FROM t)",
                "SELECT id FROM t WHERE EXISTS (SELECT 1 FROM t)",
                "SELECT (SELECT MAX(id) FROM t) FROM t",
                "SELECT id FROM t WHERE a LIKE 'x%'",
                "SELECT id FROM t WHERE s LIKE NULL",
                "SELECT id FROM t WHERE s + 1 > 2",
                "SELECT id FROM t WHERE s > 5",
                "SELECT -s FROM t",
                "SELECT NOT a FROM t",
                "SELECT id FROM t ORDER BY nope",
                "SELECT nope FROM t",
                "SELECT * FROM nope",
                "INSERT INTO t VALUES (1)",
                "INSERT INTO t VALUES (1, 2, 3, 4, 5, 6)",
                "INSERT INTO t VALUES ('x', 'y', 1, 'z')",
                "INSERT INTO t (id, nope) VALUES (1, 2)",
                "INSERT INTO t VALUES (50, 2147483648, 'big', 1.5)",
                "INSERT INTO t VALUES (51, -2147483649, 'big', 1.5)",
                "UPDATE t SET a = 'text' WHERE id = 1",
                "UPDATE t SET nope = 1",
                "UPDATE t SET a = a / 0",
                "DELETE FROM t WHERE a / 0 = 1",
                "CREATE TABLE t (id BIGINT)",
                "CREATE TABLE (id BIGINT)",
                "CREATE TABLE u (id NOPE)",
                "CREATE TABLE u (id BIGINT, id BIGINT)",
                "DROP TABLE nope",
                "ALTER TABLE nope ADD COLUMN x INT",
                "ALTER TABLE t DROP COLUMN nope",
                "CREATE UNIQUE INDEX i ON t (nope)",
                "CREATE UNIQUE INDEX i ON nope (id)",
                "SELECT 1",
                "SELECT",
                "",
                ";",
                "SELECT * FROM t;;",
                "SELECT * FROM t; DROP TABLE t",
                "WITH c AS (SELECT id FROM t) SELECT * FROM c",
                "SELECT DISTINCT * FROM t ORDER BY id LIMIT -1",
                "SELECT * FROM t LIMIT 99999999999999999999",
                "SELECT * FROM t OFFSET 1e10",
                "SELECT COUNT(DISTINCT *) FROM t",
                "SELECT SUM(s) FROM t",
                "SELECT AVG(s), MIN(NULL) FROM t",
                "SELECT CAST(a AS TEXT) FROM t",
                "SELECT CAST(s AS INT) FROM t",
                "BEGIN",
                "COMMIT",
                "ROLLBACK",
            ];
            if r.chance(1, 3) {
                // every scalar / aggregate function of the binder with 0-3 arguments of every kind (arity and type errors
                // must be errors, not panics)
                let f = *r.pick(&["COUNT", "SUM", "AVG", "MIN", "MAX", "CHAR_LENGTH", "UPPER", "LOWER", "LTRIM", "RTRIM", "CONCAT", "ABS", "ROUND", "CEILING", "FLOOR", "SQRT", "COALESCE", "NULLIF"]);
                let n = r.below(4);
                let args: Vec<&str> = (0..n).map(|_| *r.pick(&["a", "s", "d", "id", "NULL", "1", "'x'", "1.5", "a > 1", "*", "-a"])).collect();
                let place = r.below(3);
                let call = format!("{}({})", f, args.join(", "));
                let sql = match place {
                    0 => format!("SELECT {} FROM t", call),
                    1 => format!("SELECT id FROM t WHERE {} IS NOT NULL", call),
                    _ => format!("SELECT id FROM t ORDER BY {}", call),
                };
                return (sql, "function-arity");
            }
            (r.pick(&v).to_string(), "semantic")
        }
        89..=93 => {
            // oversized values
            let n = *r.pick(&[300usize, 1200, 3000, 5000, 9000, 70000]);
            let c = if r.chance(1, 2) { "INSERT INTO t VALUES (77, 1, '{}', 1.5)" } else { "SELECT id FROM t WHERE s = '{}'" };
            (c.replace("{}", &"y".repeat(n)), "oversized")
        }
        _ => {
            // nesting stressors, moderate depth (deep ones are in the nesting leg)
            let d = *r.pick(&[5usize, 20, 60, 150]);
            let s = match r.below(4) {
                0 => format!("SELECT id FROM t WHERE {}a > 0{}", "(".repeat(d), ")".repeat(d)),
                1 => format!("SELECT id FROM t WHERE {}a > 0", "NOT ".repeat(d)),
                2 => format!("SELECT id FROM t WHERE a > 0{}", " AND a > 0".repeat(d)),
                _ => format!("SELECT {}a{} FROM t", "-(".repeat(d), ")".repeat(d)),
            };
            (s, "nesting")
        }
    }
}

fn short(s: &str) -> String {
    let t: String = s.chars().take(300).collect();
    if s.len() > 300 { format!("{}… ({} bytes)", t, s.len()) } else { t }
}

/// Stable description of a panic: file + message with digits removed.
pub fn panic_sig(p: &PanicRec) -> String {
    let site = panic_site(&p.location);
    if site.starts_with("storage/") {
        // bounds panics of the slotted-page / tuple code: one signature per file
        return site;
    }
    let msg: String = p.message.chars().filter(|c| !c.is_ascii_digit()).take(60).collect();
    format!("{}:{}", panic_site(&p.location), msg.trim())
}

struct Fx {
    db: Dbx,
    snapshot: Vec<String>,
    state: State,
}

fn fresh() -> Fx {
    let db = Dbx::create(cfg(4096, 10000, 4, 3, 2));
    let t = base_table();
    let mut state = State::default();
    db.exec(&Stmt::Create(t.clone()).sql());
    state.apply(&Stmt::Create(t.clone()));
    let ins = "INSERT INTO t VALUES (1, 10, 'a', 1.5), (2, -7, 'ABC', -2.25), (3, 0, '', 0.5), (4, NULL, NULL, NULL), (5, 2147483647, 'zz', 100.5), (6, 3, 'a%b', 3.5)";
    db.exec(ins);
    let snapshot = db.table_bag("t").unwrap_or_default();
    // the model state is only used to generate valid statements over the right schema
    let mut t2 = t;
    t2.rows = vec![vec![V::I(1), V::I(10), V::T("a".into()), V::F(1.5)]];
    state.tables.insert("t".into(), t2);
    Fx { db, snapshot, state }
}

pub fn run(seed: u64, tier: &str, shard: u64) {
    let n = if tier == "thorough" { 120000 } else { 6000 };
    let mut master = Rng::new(seed ^ shard.wrapping_mul(0xC16C_16C1_6C16_C16C));
    let mut fx = fresh();
    let mut since_fresh = 0;
    for i in 0..n {
        let mut r = master.fork(i);
        let (input, class) = gen_input(&mut r, &fx.state);
        report::arm(&format!("C16 input ({}) {}", class, short(&input)), 60);
        *report::ON_HANG_SIG.lock().unwrap() = Some(class.to_string());
        let o = fx.db.exec(&input);
        report::disarm();
        let panics = take_panics();
        report::eval(Some(fnv(input.as_bytes())));
        report::count(&format!("inputs.{}", class), 1);
        match &o {
            Out::Err(_) => report::count("outcome.error", 1),
            _ => report::count("outcome.ok", 1),
        }
        let kw: String = input.trim_start().split(|c: char| !c.is_ascii_alphabetic()).next().unwrap_or("").to_uppercase().chars().take(10).collect();
        let case = || J::obj().with("kind", "sql-input").with("class", class).with("input", short(&input));
        let mut need_fresh = false;
        if !panics.is_empty() {
            for p in &panics {
                report::violation(&format!("C16:panic:{}", panic_sig(p)), &format!("input class {}: `{}` => {} ; panic at {}: {}", class, short(&input), o.show(), p.location, p.message), case());
            }
            report::count("panics", panics.len() as i64);
            need_fresh = true; // the pool has lost a worker
        } else if let Out::Err(e) = &o {
            if e.contains("channel closed") {
                report::violation("C16:worker-lost:no-panic-recorded", &format!("`{}` => {}", short(&input), e), case());
                need_fresh = true;
            }
        }
        if !need_fresh {
            // liveness + state oracle
            report::arm("C16 liveness probe", 60);
            let now = fx.db.table_bag("t");
            report::disarm();
            match (&o, now) {
                (Out::Err(_), Ok(rows)) => {
                    report::count("state_unchanged_checks", 1);
                    if rows != fx.snapshot {
                        report::violation(
                            &format!("C16:state-changed-by-failed-statement:{}", kw),
                            &format!("`{}` failed ({}) but table t changed: {} rows before, {} after", short(&input), o.show(), fx.snapshot.len(), rows.len()),
                            case(),
                        );
                        need_fresh = true;
                    }
                }
                (_, Ok(rows)) => fx.snapshot = rows,
                (_, Err(e)) => {
                    let p = take_panics();
                    let why = p.first().map(panic_sig).unwrap_or_else(|| err_class(&e));
                    let _ = why;
                    report::violation(&format!("C16:database-unusable-after:{}", kw), &format!("after `{}` => {} the probe SELECT * FROM t fails: {}", short(&input), o.show(), e), case());
                    need_fresh = true;
                }
            }
        }
        since_fresh += 1;
        // stability envelope: rows rewritten by UPDATE are known to be mis-read later (C18 / C05 findings), so a database
        // is retired after its first successful UPDATE; damage that is visible immediately is still reported above
        if kw == "UPDATE" && matches!(o, Out::Affected(n) if n > 0) {
            need_fresh = true;
        }
        // same for rows larger than a page (overflow chains): open finding, see corpus/C16
        if class == "oversized" && o.is_ok() {
            need_fresh = true;
        }
        if need_fresh || since_fresh >= 60 {
            // stability envelope: a database lives for at most 60 inputs (catalog rows grow with every write)
            fx = fresh();
            since_fresh = 0;
        }
        if i < 4 {
            report::sample(4, || case().with("outcome", o.show()));
        }
    }
}

/// Deep nesting leg: runs in its own process so that a stack overflow (SIGSEGV/SIGABRT) is attributed.
pub fn run_nesting(shard: u64) {
    let depths = [200usize, 1000, 5000, 20000, 100000];
    let kinds = ["paren", "not", "and", "neg"];
    let kind = kinds[(shard as usize) % kinds.len()];
    let fx = fresh();
    for d in depths {
        let s = match kind {
            "paren" => format!("SELECT id FROM t WHERE {}a > 0{}", "(".repeat(d), ")".repeat(d)),
            "not" => format!("SELECT id FROM t WHERE {}a > 0", "NOT ".repeat(d)),
            "and" => format!("SELECT id FROM t WHERE a > 0{}", " AND a > 0".repeat(d)),
            _ => format!("SELECT {}a{} FROM t", "-(".repeat(d), ")".repeat(d)),
        };
        // progress marker so that the driver can name the depth reached when the process dies
        report::about_to(&format!("nesting-{}", kind), &format!("depth {} ({} bytes of SQL)", d, s.len()));
        report::arm(&format!("C16 nesting {} depth {}", kind, d), 120);
        let o = fx.db.exec(&s);
        report::disarm();
        report::eval(Some(fnv(format!("{}{}", kind, d).as_bytes())));
        report::done_with();
        report::set_max(&format!("max.nesting_depth_returned.{}", kind), d as i64);
        for p in take_panics() {
            report::violation(&format!("C16:panic:{}", panic_sig(&p)), &format!("nesting {} depth {} => {}", kind, d, o.show()), J::obj().with("kind", "nesting").with("depth", d));
            return;
        }
    }
}
