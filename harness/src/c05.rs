//! E4 sqldiff — C05 (query answers match SQL semantics): random populations x random statements,
//! engine outcome vs the reference model; after every DML the full table state is compared too.
use crate::dbx::*;
use crate::sqlgen::*;
use crate::json::J;
use crate::model::*;
use crate::report;
use crate::rng::{Rng, fnv};

/// Atoms for which the unchanged tree is known to misbehave (each backed by an entry in
/// known_findings.jsonl). Cases of the clean stratum never contain them; cases of the full stratum
/// contain exactly one of them, and a failure there carries that atom in its signature.
pub const DIRTY: &[&str] = &[
    "agg.count",
    "agg.count_distinct",
    "join.right",
    "join.full",
    "ty.bool",
    "sel.order_by.group",
    "in.null_item",
    "join.on_general",
    "join.on_extra",
    "upd.on_indexed_table",
    "ins.col_list_with_constraints",
    "sel.order_by_expr",
    "upd.on_text_table",
    "upd.fails_midway",
    "join.where",
    "join.on_equi_cols",
];

pub fn clean_lang() -> Lang {
    Lang::without(DIRTY)
}

pub fn schema_atoms(t: &Table) -> Vec<String> {
    let mut a = vec![];
    for c in &t.cols {
        match c.ty {
            Ty::Bool => a.push("ty.bool".to_string()),
            Ty::UInt => a.push("ty.uint".into()),
            Ty::BigUInt => a.push("ty.biguint".into()),
            Ty::Float => a.push("ty.float".into()),
            _ => {}
        }
        if c.not_null {
            a.push("schema.not_null".into());
        }
        if c.default.is_some() {
            a.push("schema.default".into());
        }
    }
    if !t.uniques.is_empty() {
        a.push("schema.unique".into());
    }
    a
}

fn tables_of(st: &Stmt) -> Vec<String> {
    match st {
        Stmt::Create(t) => vec![t.name.clone()],
        Stmt::Drop(n) => vec![n.clone()],
        Stmt::Insert(t, ..) | Stmt::Update(t, ..) | Stmt::Delete(t, ..) | Stmt::DropColumn(t, _) | Stmt::CreateIndex(_, t, _) => vec![t.clone()],
        Stmt::Select(s) => s.from.iter().map(|f| f.table.clone()).collect(),
    }
}

pub fn case_atoms(st: &Stmt, state: &State) -> Vec<String> {
    let mut a = st.atoms();
    for tn in tables_of(st) {
        if let Some(t) = state.tables.get(&tn) {
            a.extend(schema_atoms(t));
        }
    }
    if a.iter().any(|x| x == "schema.unique") {
        if a.iter().any(|x| x == "stmt.update") {
            a.push("upd.on_indexed_table".into());
        }
    }
    if a.iter().any(|x| x == "stmt.update") {
        for tn in tables_of(st) {
            if let Some(t) = state.tables.get(&tn) {
                if t.cols.iter().any(|c| c.ty == Ty::Text) {
                    a.push("upd.on_text_table".into());
                }
            }
        }
    }
    if a.iter().any(|x| x == "ins.col_list") && a.iter().any(|x| x == "schema.not_null" || x == "schema.default") {
        a.push("ins.col_list_with_constraints".into());
    }
    a.sort();
    a.dedup();
    a
}

pub fn dirty_atoms(st: &Stmt, state: &State, dirty: &[&str]) -> Vec<String> {
    let mut a = case_atoms(st, state);
    a.retain(|x| dirty.contains(&x.as_str()));
    a
}

pub struct Case {
    pub setup: Vec<String>,
    pub stmt: String,
    pub full_paren: String,
}

fn diff_rows(eng: &Out, model: &MOut) -> String {
    if let (Out::Rows(e), MOut::Rows { rows, .. }) = (eng, model) {
        let eb = bag(e);
        let mb = bag(rows);
        let only_e: Vec<&String> = eb.iter().filter(|k| !mb.contains(k)).take(4).collect();
        let only_m: Vec<&String> = mb.iter().filter(|k| !eb.contains(k)).take(4).collect();
        return format!("engine-only {:?} model-only {:?}", only_e, only_m).replace('\u{1}', ",");
    }
    String::new()
}

/// Finer divergence kind for the state-after oracle, by row id (column 0): which rows differ between engine and
/// model, and whether the statement was supposed to touch them at all (model before == model after).
fn state_diff_kind(eng: &Out, before: &[RowV], model_after: &MOut) -> Option<String> {
    let (Out::Rows(e), MOut::Rows { rows: m, .. }) = (eng, model_after) else { return None };
    let key = |r: &RowV| r.first().map(|v| v.key()).unwrap_or_default();
    let em: std::collections::BTreeMap<String, String> = e.iter().map(|r| (key(r), row_key(r))).collect();
    let mm: std::collections::BTreeMap<String, String> = m.iter().map(|r| (key(r), row_key(r))).collect();
    let bm: std::collections::BTreeMap<String, String> = before.iter().map(|r| (key(r), row_key(r))).collect();
    if em.len() != e.len() || mm.len() != m.len() {
        return None; // ids not unique: fall back to the bag comparison
    }
    let mut kinds = std::collections::BTreeSet::new();
    for (id, ek) in &em {
        match mm.get(id) {
            None => {
                kinds.insert("extra-row");
            }
            Some(mk) if mk != ek => {
                if bm.get(id) == Some(mk) {
                    kinds.insert("untouched-row-changed");
                } else {
                    kinds.insert("touched-row-wrong-value");
                }
            }
            _ => {}
        }
    }
    for id in mm.keys() {
        if !em.contains_key(id) {
            kinds.insert("missing-row");
        }
    }
    if kinds.is_empty() { None } else { Some(kinds.into_iter().collect::<Vec<_>>().join("+")) }
}

fn case_json(setup: &[String], stmt: &Stmt, eng: &Out, model: &MOut, atoms: &[String]) -> J {
    let panics: Vec<J> = take_panics().iter().map(|p| J::Str(format!("{} {}", panic_site(&p.location), p.message))).collect();
    let exp = match model {
        MOut::Rows { rows, .. } => Out::Rows(rows.clone()).show(),
        MOut::Affected(n) => format!("AFFECTED {}", n),
        MOut::Ddl => "DDL".into(),
        MOut::Err(e) => format!("ERR {:?}", e),
    };
    J::obj()
        .with("kind", "sql-script")
        .with("setup", J::Arr(setup.iter().map(|s| J::Str(s.clone())).collect()))
        .with("stmt", stmt.sql())
        .with("stmt_fully_parenthesised", stmt.sql_mode(true))
        .with("engine", eng.show())
        .with("model", exp)
        .with("diff", diff_rows(eng, model))
        .with("panics", J::Arr(panics))
        .with("atoms", J::Arr(atoms.iter().map(|s| J::Str(s.clone())).collect()))
}

pub struct Cfg {
    pub populations: usize,
    pub stmts_per_pop: usize,
}

/// One population + statement battery. Returns number of statements executed.
pub fn run_population(r: &mut Rng, lang: &Lang, stratum: &str, check: &str, nstmts: usize) {
    let mut g = Gen::new(r, lang);
    let mut state = State::default();
    let db = Dbx::create(default_cfg());
    let mut setup: Vec<String> = vec![];
    // stability envelope of the unchanged tree: <= 2 tables and a few dozen writes per database (see DESIGN.md)
    let ntables = if g.r.chance(1, 2) { 2 } else { 1 };
    let mut next_ids: Vec<i128> = vec![];
    for i in 0..ntables {
        let nc = g.r.range(1, 4) as usize;
        let mut t = g.table(&format!("t{}", i), nc);
        if ntables > 1 {
            t.uniques.clear(); // envelope: an index doubles the catalog rows
        }
        let n = *g.r.pick(&[0usize, 1, 3, 6, 10, 16]);
        let rows = g.population(&t, n);
        let create = Stmt::Create(t.clone());
        let o = db.exec(&create.sql());
        setup.push(create.sql());
        if o.is_err() {
            report::violation(&format!("{}:setup:create-failed:[{}]", check, schema_atoms(&t).join(",")), &o.show(), J::Str(create.sql()));
            return;
        }
        state.apply(&create);
        for ins in populate_stmts(&t, &rows, 4) {
            let o = db.exec(&ins.sql());
            let m = state.apply(&ins);
            setup.push(ins.sql());
            if let Some(d) = compare(&o, &m) {
                let atoms = dirty_atoms(&ins, &state, DIRTY);
                report::violation(&format!("{}:setup-insert:{}:[{}]", check, d.tag(), atoms.join(",")), &o.show(), case_json(&setup, &ins, &o, &m, &atoms));
                return;
            }
        }
        next_ids.push(n as i128 + 1);
    }
    for _ in 0..nstmts {
        let mut stmt_opt = None;
        let mut ti = 0;
        for _try in 0..20 {
            let k = g.r.below(10);
            let tnames: Vec<String> = state.tables.keys().cloned().collect();
            ti = g.r.usize(tnames.len());
            let t = state.tables[&tnames[ti]].clone();
            let mut id_probe = next_ids[ti];
            let cand = if k < 7 || ntables > 1 {
                // two-table databases stay read-only after population (stability envelope)
                Stmt::Select(g.select(&state))
            } else if k == 7 {
                g.insert(&t, &mut id_probe)
            } else if k == 8 {
                g.update(&t)
            } else {
                g.delete(&t)
            };
            // the case must stay inside the vocabulary of its stratum
            if case_atoms(&cand, &state).iter().any(|a| g.lang.banned.contains(a)) {
                continue;
            }
            next_ids[ti] = id_probe;
            stmt_opt = Some(cand);
            break;
        }
        let Some(stmt) = stmt_opt else { continue };
        let sql = stmt.sql();
        let mut atoms = dirty_atoms(&stmt, &state, DIRTY);
        let mut all_atoms = case_atoms(&stmt, &state);
        // an UPDATE that the model rejects (constraint hit on some row) is its own feature: the engine is known
        // to leave the rows it had already rewritten (decided from the model's outcome, before the engine runs)
        if matches!(stmt, Stmt::Update(..)) {
            let mut probe = state.clone();
            if matches!(probe.apply(&stmt), MOut::Err(_)) {
                if g.lang.banned.contains("upd.fails_midway") {
                    continue;
                }
                atoms.push("upd.fails_midway".into());
                all_atoms.push("upd.fails_midway".into());
            }
        }
        let before_rows: Vec<RowV> = tables_of(&stmt).first().and_then(|t| state.tables.get(t)).map(|t| t.rows.clone()).unwrap_or_default();
        let o = db.exec(&sql);
        let m = state.apply(&stmt);
        let nontrivial = match &m {
            MOut::Rows { pool, .. } => !pool.is_empty(),
            MOut::Affected(n) => *n > 0,
            _ => false,
        };
        report::eval(if nontrivial { Some(fnv(format!("{}|{}", setup.len(), sql).as_bytes()) ^ fnv(setup.join(";").as_bytes())) } else { None });
        report::count(&format!("stratum.{}", stratum), 1);
        for a in &all_atoms {
            report::count(&format!("atom.{}", a), 1);
        }
        report::sample(4, || J::obj().with("sql", sql.as_str()).with("engine", o.show()).with("stratum", stratum));
        let is_dml = !matches!(stmt, Stmt::Select(_));
        if let Some(d) = compare(&o, &m) {
            let oracle = match stmt {
                Stmt::Select(_) => "result-rows",
                _ => "affected-count",
            };
            for a in &all_atoms {
                report::count(&format!("failatom.{}", a), 1);
            }
            report::count(&format!("failset.{}|{}", d.tag(), all_atoms.join(",")), 1);
            report::violation(&format!("{}:{}:{}:[{}]", check, oracle, d.tag(), atoms.join(",")), &format!("{} => {}", sql, o.show()), case_json(&setup, &stmt, &o, &m, &atoms));
            let _ = take_panics();
            return; // engine and model have parted: stop this history
        }
        if is_dml {
            setup.push(sql.clone());
            // state-after oracle: whole table, read by plain scan
            let tn = tables_of(&stmt)[0].clone();
            let sel = Select { items: vec![Item::Star], from: vec![FromItem { table: tn.clone(), alias: None, join: JoinKind::Inner, on: None }], ..Default::default() };
            let eo = db.exec(&sel.sql(false));
            let mo = state.apply(&Stmt::Select(sel));
            if let Some(d) = compare(&eo, &mo) {
                let kind = state_diff_kind(&eo, &before_rows, &mo).unwrap_or_else(|| d.tag());
                report::violation(&format!("{}:state-after:{}:[{}]", check, kind, atoms.join(",")), &format!("after {} table {} is {}", sql, tn, eo.show()), case_json(&setup, &stmt, &eo, &mo, &atoms));
                return;
            }
            report::count("state_checks", 1);
        }
    }
}


/// Literal-typing probe: integral literals around the 32-bit and 53-bit boundaries written into a BIGINT column and
/// used in comparison predicates (no arithmetic on them); every statement is compared with the reference model.
pub fn literal_probe(r: &mut Rng, check: &str) {
    let lits: Vec<i128> = vec![-9007199254740992, -5000000000, -2147483649, -2147483648, -2147483647, -1, 0, 1, 2147483646, 2147483647, 2147483648, 4294967295, 4294967296, 5000000000, 9007199254740992];
    let t = Table { name: "lb".into(), cols: vec![Col { name: "id".into(), ty: Ty::BigInt, not_null: false, default: None }, Col { name: "v".into(), ty: Ty::BigInt, not_null: false, default: None }], uniques: vec![], rows: vec![] };
    let db = Dbx::create(default_cfg());
    let mut state = State::default();
    let mut setup: Vec<String> = vec![];
    let mut run = |st: Stmt, state: &mut State, setup: &mut Vec<String>| -> bool {
        let o = db.exec(&st.sql());
        let m = state.apply(&st);
        report::eval(Some(fnv(format!("lit|{}|{}", setup.len(), st.sql()).as_bytes())));
        report::count("literal_probe_statements", 1);
        if let Some(d) = compare(&o, &m) {
            report::violation(&format!("{}:literal-typing:{}:[]", check, d.tag()), &format!("{} => {}", st.sql(), o.show()), case_json(setup, &st, &o, &m, &[]));
            return false;
        }
        setup.push(st.sql());
        true
    };
    if !run(Stmt::Create(t.clone()), &mut state, &mut setup) {
        return;
    }
    let mut order: Vec<usize> = (0..lits.len()).collect();
    r.shuffle(&mut order);
    for (n, i) in order.iter().take(r.range(6, lits.len() as i64) as usize).enumerate() {
        let ins = Stmt::Insert("lb".into(), None, vec![vec![Expr::Lit(V::I(n as i128 + 1)), Expr::Lit(V::I(lits[*i]))]]);
        if !run(ins, &mut state, &mut setup) {
            return;
        }
    }
    let from = vec![FromItem { table: "lb".into(), alias: None, join: JoinKind::Inner, on: None }];
    let all = Select { items: vec![Item::Star], from: from.clone(), ..Default::default() };
    if !run(Stmt::Select(all), &mut state, &mut setup) {
        return;
    }
    for _ in 0..8 {
        let l = *r.pick(&lits);
        let op = *r.pick(&[Op::Lt, Op::Le, Op::Eq, Op::Ge, Op::Gt, Op::Ne]);
        let q = Select { items: vec![Item::Expr(col("id")), Item::Expr(col("v"))], from: from.clone(), wher: Some(bin(op, col("v"), Expr::Lit(V::I(l)))), ..Default::default() };
        if !run(Stmt::Select(q), &mut state, &mut setup) {
            return;
        }
    }
    let l = *r.pick(&lits);
    let _ = run(Stmt::Delete("lb".into(), Some(bin(Op::Lt, col("v"), Expr::Lit(V::I(l))))), &mut state, &mut setup);
    let all = Select { items: vec![Item::Star], from, ..Default::default() };
    let _ = run(Stmt::Select(all), &mut state, &mut setup);
    let _ = take_panics();
}

pub fn run(seed: u64, tier: &str, shard: u64, only_atom: Option<&str>) {
    let (pops, per) = if tier == "thorough" { (6000, 40) } else { (300, 40) };
    let mut master = Rng::new(seed ^ (shard.wrapping_mul(0x1234_5678_9abc_def1)));
    for p in 0..pops {
        let mut r = master.fork(p as u64);
        // 70 % clean stratum, 30 % exactly one dirty atom enabled
        let (lang, stratum) = match only_atom {
            Some("clean") => (clean_lang(), "clean".to_string()),
            Some(a) => {
                let mut l = clean_lang();
                for x in a.split('+') {
                    l.allow(x);
                }
                (l, format!("dirty:{}", a))
            }
            None => (clean_lang(), "clean".to_string()),
        };
        report::arm(&format!("c05 population {} ({})", p, stratum), 120);
        run_population(&mut r, &lang, &stratum, "C05", per);
        if only_atom.is_none() && p % 8 == 0 {
            literal_probe(&mut r, "C05");
        }
        report::disarm();
    }
}
