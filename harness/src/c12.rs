//! C12 — configuration differential: one history, many configurations; statement-by-statement equality of
//! outcomes (and equality with the reference model), the only permitted difference being an explicit
//! out-of-memory error of a too-small cache. The tap counts data-file writes so that the evidence shows
//! whether eviction / write-back really happened.
use crate::dbx::*;
use crate::hist::*;
use crate::json::J;
use crate::model::*;
use crate::report;
use crate::rng::{Rng, fnv};
use axmosdb::verif::io_tap::{self, IoEvent};

fn wide_text(r: &mut Rng) -> String {
    let n = *r.pick(&[20usize, 60, 120, 250, 400]);
    let c = *r.pick(&['a', 'b', 'x', 'q']);
    let mut s: String = std::iter::repeat(c).take(n).collect();
    s.push_str(&format!("{}", r.below(1000)));
    s
}

pub fn gen_history(r: &mut Rng) -> Vec<Step> {
    let t = Table {
        name: "t0".into(),
        cols: vec![
            Col { name: "id".into(), ty: Ty::BigInt, not_null: false, default: None },
            Col { name: "a".into(), ty: Ty::Int, not_null: false, default: None },
            Col { name: "s".into(), ty: Ty::Text, not_null: false, default: None },
        ],
        uniques: vec![],
        rows: vec![],
    };
    let mut steps = vec![Step::Auto(Stmt::Create(t.clone()))];
    let mut next_id = 1i128;
    let n = r.range(12, 30);
    for _ in 0..n {
        let k = r.below(10);
        if k < 5 {
            let rows = r.range(5, 30);
            let mut v = vec![];
            for _ in 0..rows {
                let a = if r.chance(1, 8) { V::Null } else { V::I(r.range(-5, 40) as i128) };
                v.push(vec![Expr::Lit(V::I(next_id)), Expr::Lit(a), Expr::Lit(V::T(wide_text(r)))]);
                next_id += 1;
            }
            steps.push(Step::Auto(Stmt::Insert("t0".into(), None, v)));
        } else if k < 7 && std::env::var("AXV_C12_DELETES").is_ok() {
            // known finding (corpus/C10/segv_insert_after_delete_min.sql): DELETE on a multi-page table followed by INSERT crashes
            let lo = r.range(1, next_id as i64);
            let hi = lo + r.range(0, 12);
            steps.push(Step::Auto(Stmt::Delete("t0".into(), Some(Expr::Between(Box::new(col("id")), Box::new(lit_i(lo)), Box::new(lit_i(hi)), false)))));
        } else if k < 8 {
            steps.push(Step::Flush);
        } else {
            // reads: aggregate, filtered projection, ordered limit
            let sel = match r.below(3) {
                0 => Select { items: vec![Item::Agg(Agg::CountStar, None), Item::Agg(Agg::Sum, Some(col("a"))), Item::Agg(Agg::Max, Some(col("id")))], from: vec![from1("t0")], ..Default::default() },
                1 => Select {
                    items: vec![Item::Expr(col("id")), Item::Expr(col("s"))],
                    from: vec![from1("t0")],
                    wher: Some(bin(Op::Gt, col("a"), lit_i(r.range(0, 30)))),
                    ..Default::default()
                },
                _ => Select { items: vec![Item::Expr(col("id")), Item::Expr(col("a"))], from: vec![from1("t0")], order_by: vec![(0, r.chance(1, 2))], limit: Some(r.below(20)), ..Default::default() },
            };
            steps.push(Step::Auto(Stmt::Select(sel)));
        }
    }
    steps
}

fn from1(t: &str) -> FromItem {
    FromItem { table: t.into(), alias: None, join: JoinKind::Inner, on: None }
}

pub fn config_grid(r: &mut Rng) -> axmosdb::DBConfig {
    let page = *r.pick(&[4096usize, 8192, 16384, 32768, 65536]);
    let cache = *r.pick(&[24usize, 48, 128, 1024, 10000]);
    let pool = *r.pick(&[1usize, 2, 8]);
    let mk = *r.pick(&[3usize, 4, 6]);
    let sib = *r.pick(&[1usize, 2, 3]);
    cfg(page, cache, pool, mk, sib)
}

fn cfg_str(c: &axmosdb::DBConfig) -> String {
    format!("page={} cache={} pool={} min_keys={} siblings={}", c.page_size, c.cache_size, c.pool_size, c.min_keys_per_page, c.num_siblings_per_side)
}

/// returns (transcript, data-file writes, stopped by permitted OOM)
fn run_under(steps: &[Step], c: axmosdb::DBConfig, with_model: bool) -> (Vec<String>, u64, bool, bool) {
    io_tap::start();
    if std::env::var("AXV_TRACE").is_ok() {
        eprintln!("C12 run under {}", cfg_str(&c));
    }
    let mut ex = Exec::new("C12", c);
    ex.permit_oom = true;
    ex.atoms.insert(format!("cfg.page{}", c.page_size));
    if c.cache_size < 200 {
        ex.atoms.insert("cfg.small_cache".into());
    }
    let _ = with_model;
    for st in steps {
        ex.run_step(st);
        if ex.diverged || ex.stopped_oom {
            break;
        }
    }
    let evs = io_tap::take();
    let dbfile = ex.db.path().to_string_lossy().to_string();
    let writes = evs.iter().filter(|e| matches!(e, IoEvent::Write { file, .. } if *file == dbfile)).count() as u64;
    let _ = take_panics();
    (ex.transcript.clone(), writes, ex.stopped_oom, ex.diverged)
}

pub fn run(seed: u64, tier: &str, shard: u64) {
    let (nh, ncfg) = if tier == "thorough" { (200, 8) } else { (12, 4) };
    let mut master = Rng::new(seed ^ shard.wrapping_mul(0x5151_7777_1234_9999) ^ 0xC12);
    for h in 0..nh {
        let mut r = master.fork(h as u64);
        let steps = gen_history(&mut r);
        if let Ok(d) = std::env::var("AXV_DUMP") {
            let _ = std::fs::write(format!("{}/c12_hist_{}.sql", d, h), steps.iter().map(|s| s.show()).collect::<Vec<_>>().join("\n"));
        }
        report::arm(&format!("C12 history {}", h), 300);
        let base = default_cfg();
        let (t0, w0, _, div0) = run_under(&steps, base, true);
        report::count("runs", 1);
        if div0 {
            report::disarm();
            continue; // the divergence from the model under the default configuration has been reported
        }
        for k in 0..ncfg {
            let c = config_grid(&mut r);
            let (t, w, oom, div) = run_under(&steps, c, true);
            report::count("runs", 1);
            report::eval(Some(fnv(format!("{}|{}", history_hash(&steps), cfg_str(&c)).as_bytes())));
            if w > w0 {
                report::count("runs_with_more_datafile_writes_than_default(eviction)", 1);
            }
            report::set_max("max.datafile_writes_in_one_run", w as i64);
            if oom {
                report::count("runs_stopped_by_permitted_oom", 1);
            }
            if div {
                continue;
            }
            // statement-by-statement equality on the common prefix (an OOM stop shortens the run)
            let n = t.len().min(t0.len());
            if let Some(i) = (0..n).find(|i| t[*i] != t0[*i]) {
                report::violation(
                    &format!("C12:config-differential:outcome-differs:[{}{}]", if c.cache_size < 200 { "cfg.small_cache," } else { "" }, format!("cfg.page{}", c.page_size)),
                    &format!("step {} `{}` gives `{}` under the default configuration but `{}` under {}", i, steps.get(i).map(|s| s.show()).unwrap_or_default().chars().take(200).collect::<String>(), t0[i].chars().take(200).collect::<String>(), t[i].chars().take(200).collect::<String>(), cfg_str(&c)),
                    J::obj().with("kind", "script").with("config", cfg_str(&c)).with("script", J::Arr(steps.iter().map(|s| J::Str(s.show())).collect())),
                );
            } else if !oom && t.len() != t0.len() {
                report::violation("C12:config-differential:length-differs:[]", &format!("{} vs {} steps under {}", t.len(), t0.len(), cfg_str(&c)), J::Null);
            }
            if k == 0 {
                report::sample(3, || J::obj().with("config", cfg_str(&c)).with("steps", steps.len()).with("datafile_writes", w).with("default_datafile_writes", w0).with("first_steps", J::Arr(steps.iter().take(4).map(|s| J::Str(s.show().chars().take(120).collect())).collect())));
            }
        }
        report::disarm();
    }
}
