//! C18 — row versions decode to the right values for every snapshot. Through the `verif` facade: schemas, rows, update
//! chains, optional delete, creator states (committed before / after the reader, active, aborted, the reader itself),
//! vacuum horizons. Oracle: a list-of-versions model with the snapshot-isolation visibility rule of the property.
//! Small bounds are enumerated exhaustively; larger cases are sampled.
use crate::dbx::*;
use crate::json::J;
use crate::report;
use crate::rng::{Rng, fnv};
use axmosdb::verif::facade::*;

#[derive(Clone, Copy, Debug, PartialEq, Eq)]
pub enum St {
    /// committed, id <= reader's last-committed horizon
    Before,
    /// id greater than the reader's horizon (began / committed after the snapshot)
    After,
    /// in the snapshot's active set
    Active,
    /// in the snapshot's aborted set
    Aborted,
    /// the reader itself
    Me,
}

fn gen_val(r: &mut Rng, k: VValKind, nullable: bool) -> VVal {
    if nullable && r.chance(1, 5) {
        return VVal::Null;
    }
    match k {
        VValKind::Bool => VVal::Bool(r.chance(1, 2)),
        VValKind::Int => VVal::Int(r.range(-1000, 1000) as i32),
        VValKind::BigInt => VVal::BigInt(r.range(-1_000_000, 1_000_000) * 1_000_003),
        VValKind::UInt => VVal::UInt(r.range(0, 100000) as u32),
        VValKind::BigUInt => VVal::BigUInt(r.next_u64() >> 3),
        VValKind::Float => VVal::Float(r.range(-100, 100) as f32 * 0.5),
        VValKind::Double => VVal::Double(r.range(-100000, 100000) as f64 * 0.25),
        VValKind::Text => {
            let n = *r.pick(&[0usize, 1, 3, 8, 17, 40, 200]);
            VVal::Text((0..n).map(|i| (b'a' + ((i + n) % 26) as u8) as char).collect())
        }
    }
}

#[derive(Clone, Debug)]
pub struct Case {
    pub keys: Vec<VValKind>,
    pub vals: Vec<VValKind>,
    pub row: Vec<VVal>,
    /// (creator txid, changes)
    pub updates: Vec<(u64, Vec<(usize, VVal)>)>,
    pub creator: u64,
    pub deleter: Option<u64>,
}

/// model: all versions, oldest first
fn versions(c: &Case) -> Vec<(u64, Vec<VVal>)> {
    let mut v = vec![(c.creator, c.row.clone())];
    for (tx, ch) in &c.updates {
        let mut next = v.last().unwrap().1.clone();
        for (i, val) in ch {
            next[c.keys.len() + *i] = val.clone();
        }
        v.push((*tx, next));
    }
    v
}

fn committed_before(s: &VSnapshot, tx: u64) -> bool {
    if let Some(h) = s.xmax {
        if tx > h {
            return false;
        }
    } else {
        return false;
    }
    !s.active.contains(&tx) && !s.aborted.contains(&tx)
}

fn model_decode(c: &Case, s: &VSnapshot) -> Option<Vec<VVal>> {
    let vis = |tx: u64| tx == s.xid || committed_before(s, tx);
    if let Some(d) = c.deleter {
        if vis(d) {
            return None;
        }
    }
    versions(c).into_iter().rev().find(|(tx, _)| vis(*tx)).map(|(_, v)| v)
}

fn atoms(c: &Case) -> Vec<String> {
    let mut a = vec![];
    if !c.updates.is_empty() {
        a.push(if c.updates.len() == 1 { "chain.one_update".to_string() } else { "chain.two_or_more_updates".to_string() });
        if c.updates.iter().any(|(_, ch)| ch.iter().any(|(_, v)| matches!(v, VVal::Null))) {
            a.push("chain.set_null".into());
        }
        if c.updates.iter().any(|(_, ch)| ch.iter().any(|(i, _)| c.vals[*i] == VValKind::Text)) {
            a.push("chain.update_text".into());
        }
        if c.updates.iter().any(|(tx, _)| *tx != c.creator) {
            a.push("chain.update_by_other_txn".into());
        }
    }
    if c.deleter.is_some() {
        a.push("chain.delete".into());
    }
    if c.vals.iter().any(|k| *k == VValKind::Text) {
        a.push("col.text".into());
    }
    if c.vals.iter().any(|k| *k == VValKind::Bool) {
        a.push("col.bool".into());
    }
    a
}

fn show(c: &Case) -> J {
    J::obj()
        .with("kind", "tuple-case")
        .with("keys", format!("{:?}", c.keys))
        .with("values", format!("{:?}", c.vals))
        .with("row", format!("{:?}", c.row).chars().take(300).collect::<String>())
        .with("creator", c.creator)
        .with("updates", format!("{:?}", c.updates).chars().take(400).collect::<String>())
        .with("deleter", format!("{:?}", c.deleter))
}

/// Builds the tuple and checks: encode/decode identity of the latest version, decode for every snapshot in `snaps`,
/// and vacuum invariance for every horizon.
pub fn check_case(c: &Case, snaps: &[VSnapshot], horizons: &[u64], _dirty_ok: bool) -> bool {
    check_case_tagged(c, snaps, horizons, None)
}

pub fn check_case_tagged(c: &Case, snaps: &[VSnapshot], horizons: &[u64], witness: Option<&str>) -> bool {
    let at = atoms(c);
    let a = at.join(",");
    let fail = |oracle: &str, kind: &str, detail: String| {
        let _ = take_panics();
        let sig = match witness {
            Some(w) => format!("C18:witness:{}", w),
            None => format!("C18:{}:{}:[{}]", oracle, kind, a),
        };
        report::violation(&sig, &detail, show(c));
    };
    let res = std::panic::catch_unwind(std::panic::AssertUnwindSafe(|| {
        let mut t = match VTuple::build(&c.keys, &c.vals, &c.row, c.creator) {
            Ok(t) => t,
            Err(e) => {
                fail("build", "error", e);
                return false;
            }
        };
        // identity of the freshly built row
        match t.decode_last() {
            Ok(r) if r == c.row => {}
            Ok(r) => {
                fail("roundtrip", "decode-differs", format!("encoded {:?} decoded {:?}", c.row, r).chars().take(300).collect());
                return false;
            }
            Err(e) => {
                fail("roundtrip", "decode-error", e);
                return false;
            }
        }
        for (tx, ch) in &c.updates {
            if let Err(e) = t.add_version(ch, *tx) {
                fail("add-version", "error", e);
                return false;
            }
        }
        if let Some(d) = c.deleter {
            if let Err(e) = t.delete(d) {
                fail("delete", "error", e);
                return false;
            }
        }
        // latest version after the chain
        let want_last = versions(c).last().unwrap().1.clone();
        match t.decode_last() {
            Ok(r) if r == want_last => {}
            Ok(r) => {
                fail("latest-version", "wrong-values", format!("want {:?} got {:?}", want_last, r).chars().take(300).collect());
                return false;
            }
            Err(e) => {
                fail("latest-version", "decode-error", e);
                return false;
            }
        }
        for s in snaps {
            let want = model_decode(c, s);
            report::count("snapshot_decodes", 1);
            match t.decode_for(s) {
                Ok(got) if got == want => {}
                Ok(got) => {
                    let kind = match (&want, &got) {
                        (None, Some(_)) => "visible-but-should-not-be",
                        (Some(_), None) => "invisible-but-should-be",
                        _ => "wrong-version",
                    };
                    fail("snapshot-decode", kind, format!("reader {:?}: model selects {:?}, decoder returns {:?}", s, want, got).chars().take(420).collect());
                    return false;
                }
                Err(e) => {
                    fail("snapshot-decode", "error", format!("reader {:?}: {}", s, e));
                    return false;
                }
            }
        }
        // vacuum: for every horizon h and every snapshot whose xmin >= h, the decode must not change
        for h in horizons {
            let mut t2 = match VTuple::build(&c.keys, &c.vals, &c.row, c.creator) {
                Ok(t) => t,
                Err(_) => return false,
            };
            for (tx, ch) in &c.updates {
                let _ = t2.add_version(ch, *tx);
            }
            if let Some(d) = c.deleter {
                let _ = t2.delete(d);
            }
            if let Err(e) = t2.vacuum(*h) {
                fail("vacuum", "error", e);
                return false;
            }
            for s in snaps.iter().filter(|s| s.xmin >= *h) {
                report::count("vacuum_invariance_checks", 1);
                let before = t.decode_for(s).ok();
                let after = t2.decode_for(s).ok();
                if before != after {
                    fail("vacuum", "changes-what-a-snapshot-decodes", format!("horizon {} reader {:?}: before {:?} after {:?}", h, s, before, after).chars().take(420).collect());
                    return false;
                }
            }
        }
        true
    }));
    match res {
        Ok(b) => b,
        Err(_) => {
            let p = take_panics();
            fail("panic", &p.first().map(|x| panic_site(&x.location)).unwrap_or_default(), p.first().map(|x| x.message.clone()).unwrap_or_default());
            false
        }
    }
}

/// Transaction ids used by the cases: 10 = Before, 20 = Active, 30 = Aborted, 40 = Me, 50 = After.
fn id_of(st: St) -> u64 {
    match st {
        St::Before => 10,
        St::Active => 20,
        St::Aborted => 30,
        St::Me => 40,
        St::After => 50,
    }
}

fn reader() -> VSnapshot {
    VSnapshot { xid: 40, xmin: 20, xmax: Some(45), active: vec![20], aborted: vec![30] }
}

const STATES: &[St] = &[St::Before, St::After, St::Active, St::Aborted, St::Me];

fn witnesses() {
    let w = |name: &str, c: Case| {
        report::count("witnesses_run", 1);
        let before = report::violation_count();
        // run the normal oracle, but report under the witness signature
        let ok = check_case_tagged(&c, &[reader()], &[0, 10], Some(name));
        if ok && report::violation_count() == before {
            report::note(&format!("known finding witness C18:{} did not reproduce", name));
        }
    };
    w(
        "two_updates_same_txn",
        Case { keys: vec![VValKind::BigUInt], vals: vec![VValKind::Text], row: vec![VVal::BigUInt(7), VVal::Text("b".into())], creator: 10, updates: vec![(10, vec![(0, VVal::Text("ijklmnop".into()))]), (10, vec![(0, VVal::Text("opqrstuvwxyzabcdefghijklmnopqrstuvwxyzab".into()))])], deleter: None },
    );
    w(
        "update_by_other_txn_visible",
        Case { keys: vec![VValKind::BigUInt], vals: vec![VValKind::Int], row: vec![VVal::BigUInt(7), VVal::Int(1)], creator: 10, updates: vec![(20, vec![(0, VVal::Int(2))])], deleter: None },
    );
}

pub fn run(seed: u64, tier: &str, shard: u64, nshards: u64, mode: Option<&str>) {
    let dirty = mode == Some("full");
    if shard == 0 && mode.is_none() && tier != "miri" {
        witnesses();
    }
    // ---- exhaustive block: 1 key, 1-2 value columns, chains of 0..=2 updates, every creator-state assignment, optional delete
    let schemas: Vec<(Vec<VValKind>, Vec<VValKind>)> = vec![
        (vec![VValKind::BigUInt], vec![VValKind::Int]),
        (vec![VValKind::BigUInt], vec![VValKind::Text]),
        (vec![VValKind::BigInt], vec![VValKind::Int, VValKind::Text]),
        (vec![VValKind::BigUInt], vec![VValKind::Double, VValKind::BigInt]),
        (vec![VValKind::Int, VValKind::Text], vec![VValKind::Text, VValKind::Int]),
    ];
    let mut idx = 0u64;
    let mut r = Rng::new(seed ^ 0xC18);
    for (keys, vals) in &schemas {
        for nupd in 0..=(if dirty { 2usize } else { 1usize }) {
            // clean stratum: update chains only when every version is created by the same transaction
            for creator in STATES {
                for del in [None, Some(St::Before), Some(St::After), Some(St::Active), Some(St::Aborted), Some(St::Me)] {
                    let n_assign = if nupd == 0 { 1 } else { STATES.len().pow(nupd as u32) };
                    for assign in 0..n_assign {
                        idx += 1;
                        if idx % nshards != shard % nshards {
                            continue;
                        }
                        let mut ups = vec![];
                        let mut a = assign;
                        let mut other = false;
                        for u in 0..nupd {
                            let st = STATES[a % STATES.len()];
                            a /= STATES.len();
                            if st != *creator {
                                other = true;
                            }
                            let ci = u % vals.len();
                            ups.push((id_of(st), vec![(ci, gen_val(&mut r, vals[ci], true))]));
                        }
                        if other && !dirty {
                            continue; // open finding: a version created by another transaction is stamped with the row's creator
                        }
                        let mut row: Vec<VVal> = keys.iter().map(|k| gen_val(&mut r, *k, false)).collect();
                        row.extend(vals.iter().map(|k| gen_val(&mut r, *k, true)));
                        let c = Case { keys: keys.clone(), vals: vals.clone(), row, updates: ups, creator: id_of(*creator), deleter: del.map(id_of) };
                        let ok = check_case(&c, &[reader()], &[0, 10, 20], dirty);
                        report::eval(Some(fnv(format!("{:?}", (&c.keys, &c.vals, nupd, creator, del, assign)).as_bytes())));
                        report::count("exhaustive_cases", 1);
                        if ok && idx < 40 {
                            report::sample(3, || show(&c).with("verdict", "latest version, snapshot decode and vacuum invariance matched the model"));
                        }
                    }
                }
            }
        }
    }
    // ---- sampled block: wider schemas, longer chains by the creator, several readers
    let n = if tier == "thorough" { 600000 } else if tier == "miri" { 60 } else { 40000 };
    let kinds = [VValKind::Int, VValKind::BigInt, VValKind::UInt, VValKind::BigUInt, VValKind::Float, VValKind::Double, VValKind::Text];
    let mut master = Rng::new(seed ^ shard.wrapping_mul(0xC18C_18C1_8C18_C18C));
    for i in 0..n {
        let mut r = master.fork(i);
        let nk = r.range(1, 3) as usize;
        let nv = r.range(0, 12) as usize;
        let keys: Vec<VValKind> = (0..nk).map(|_| *r.pick(&[VValKind::BigUInt, VValKind::BigInt, VValKind::Int, VValKind::Text])).collect();
        let vals: Vec<VValKind> = (0..nv).map(|_| *r.pick(&kinds)).collect();
        let mut row: Vec<VVal> = keys.iter().map(|k| gen_val(&mut r, *k, false)).collect();
        row.extend(vals.iter().map(|k| gen_val(&mut r, *k, true)));
        let creator = id_of(*r.pick(STATES));
        // open finding: chains of two or more updates mis-decode / panic (witness two_updates_same_txn)
        let nupd = if nv == 0 { 0 } else if dirty { r.range(0, 8) as usize } else { r.range(0, 1) as usize };
        let mut ups = vec![];
        for _ in 0..nupd {
            let tx = if dirty && r.chance(1, 2) { id_of(*r.pick(STATES)) } else { creator };
            let nch = r.range(1, nv.min(4) as i64) as usize;
            let mut cols: Vec<usize> = (0..nv).collect();
            r.shuffle(&mut cols);
            ups.push((tx, cols.into_iter().take(nch).map(|ci| (ci, gen_val(&mut r, vals[ci], true))).collect()));
        }
        let deleter = if r.chance(1, 3) { Some(id_of(*r.pick(STATES))) } else { None };
        let c = Case { keys, vals, row, updates: ups, creator, deleter };
        let snaps = vec![
            reader(),
            VSnapshot { xid: 41, xmin: 41, xmax: Some(60), active: vec![], aborted: vec![30] },
            VSnapshot { xid: 9, xmin: 9, xmax: Some(5), active: vec![], aborted: vec![] },
            VSnapshot { xid: 25, xmin: 20, xmax: Some(24), active: vec![20], aborted: vec![] },
        ];
        check_case(&c, &snaps, &[0, 9, 20, 41], dirty);
        report::eval(Some(fnv(format!("{}{}{}", seed, shard, i).as_bytes())));
        report::count("sampled_cases", 1);
    }
}
