//! E5 btree — C10 (each B+tree is a correct ordered map with sound structure) and C11 (page ownership), through
//! the `verif` facade on a real pager file. Random and adversarial operation sequences; after every operation the
//! touched key is looked up, periodically the whole tree is scanned and compared with a BTreeMap model, the page
//! graph is walked (depth, sibling chain, child counts, slot geometry) and every page of the file is attributed
//! to exactly one owner (tree node, overflow-chain link, free-list member).
use crate::dbx::*;
use crate::json::J;
use crate::report;
use crate::rng::{Rng, fnv};
use axmosdb::verif::facade::*;
use std::cmp::Ordering;
use std::collections::{BTreeMap, BTreeSet};

#[derive(Clone, Debug)]
pub struct MKey(pub Vec<VKey>);

impl PartialEq for MKey {
    fn eq(&self, o: &Self) -> bool {
        self.cmp(o) == Ordering::Equal
    }
}
impl Eq for MKey {}
impl PartialOrd for MKey {
    fn partial_cmp(&self, o: &Self) -> Option<Ordering> {
        Some(self.cmp(o))
    }
}
impl Ord for MKey {
    fn cmp(&self, o: &Self) -> Ordering {
        for (a, b) in self.0.iter().zip(o.0.iter()) {
            let c = match (a, b) {
                (VKey::U(x), VKey::U(y)) => x.cmp(y),
                (VKey::I(x), VKey::I(y)) => x.cmp(y),
                (VKey::I32(x), VKey::I32(y)) => x.cmp(y),
                (VKey::F(x), VKey::F(y)) => x.partial_cmp(y).unwrap_or(Ordering::Equal),
                (VKey::T(x), VKey::T(y)) => x.as_bytes().cmp(y.as_bytes()),
                _ => Ordering::Equal,
            };
            if c != Ordering::Equal {
                return c;
            }
        }
        Ordering::Equal
    }
}

#[derive(Clone, Debug)]
pub struct TreeCfg {
    /// cells of different sizes in one tree (open finding: rebalancing assumes uniform cells)
    pub variable_cells: bool,
    /// only inserts of (mostly) fresh keys: no operation replaces a cell by one of another size
    pub insert_only: bool,
    pub page: usize,
    pub cache: usize,
    pub min_keys: usize,
    pub siblings: usize,
    pub keys: Vec<VKeyKind>,
    pub order: &'static str,
    pub payloads: &'static [usize],
    pub nops: usize,
    pub removes: bool,
    pub updates: bool,
}

impl TreeCfg {
    fn atoms(&self) -> Vec<String> {
        let mut a = vec![];
        if self.insert_only {
            a.push("ops.insert_only".to_string());
        }
        if self.variable_cells {
            a.push("cells.variable_size".to_string());
        }
        if self.payloads.iter().any(|p| *p > self.page / 4) {
            a.push("payload.overflow".to_string());
        } else if self.payloads.iter().any(|p| *p >= 300) {
            a.push("cells.large".to_string());
        }
        if self.removes {
            a.push("op.remove".into());
        }
        if self.updates {
            a.push("op.update".into());
        }
        if self.page != 4096 {
            a.push(format!("page.{}", self.page));
        }
        if self.keys.len() > 1 {
            a.push("key.composite".into());
        }
        for k in &self.keys {
            match k {
                VKeyKind::Text => a.push("key.text".into()),
                VKeyKind::Double => a.push("key.double".into()),
                VKeyKind::BigInt | VKeyKind::Int => a.push("key.signed".into()),
                _ => {}
            }
        }
        if self.cache < 4000 {
            a.push("cache.small".into());
        }
        a.sort();
        a.dedup();
        a
    }
    fn show(&self) -> String {
        format!("page={} cache={} min_keys={} siblings={} keys={:?} order={} payloads={:?} nops={} removes={} updates={}", self.page, self.cache, self.min_keys, self.siblings, self.keys, self.order, self.payloads, self.nops, self.removes, self.updates)
    }
}

fn gen_key(r: &mut Rng, kinds: &[VKeyKind], i: usize, n: usize, order: &str) -> MKey {
    let base: i64 = match order {
        "asc" => i as i64,
        "desc" => (n - i) as i64,
        "zigzag" => if i % 2 == 0 { (i / 2) as i64 } else { (n - i / 2) as i64 },
        "dups" => r.range(0, (n / 4).max(1) as i64),
        _ => r.range(0, (n * 3) as i64),
    };
    let mut v = vec![];
    for (j, k) in kinds.iter().enumerate() {
        let b = if j == 0 { base } else { r.range(0, 3) };
        v.push(match k {
            VKeyKind::BigUInt => VKey::U(b as u64),
            VKeyKind::BigInt => VKey::I(b - (n as i64)),
            VKeyKind::Int => VKey::I32((b - (n as i64) / 2) as i32),
            VKeyKind::Double => VKey::F(b as f64 * 0.5 - 10.0),
            VKeyKind::Text => VKey::T(format!("k{:07}", b)),
        });
    }
    MKey(v)
}

fn payload(r: &mut Rng, sizes: &[usize], tag: u64, variable: bool) -> Vec<u8> {
    let n = if variable { *r.pick(sizes) } else { sizes[0] };
    let n = if variable && n > 8 { n - r.usize(n / 4 + 1) } else { n };
    let mut v = format!("p{}:", tag).into_bytes();
    while v.len() < n {
        v.push(b'a' + (v.len() % 23) as u8);
    }
    v.truncate(n.max(1));
    v
}

struct Audit {
    pages_seen: usize,
    leaves: usize,
    depth: usize,
    overflow_pages: usize,
    free_pages: usize,
}

/// Structural walk + ownership audit. Returns Err((invariant id, detail)).
fn audit(pager: &VPager, roots: &[u64], expect_keys: Option<usize>) -> Result<Audit, (String, String)> {
    let hdr = pager.header();
    let mut owner: BTreeMap<u64, String> = BTreeMap::new();
    let mut claim = |id: u64, who: String, owner: &mut BTreeMap<u64, String>| -> Result<(), (String, String)> {
        if id == 0 || id >= hdr.total_pages {
            return Err(("page-out-of-range".into(), format!("{} references page {} but the file has {} pages", who, id, hdr.total_pages)));
        }
        if let Some(prev) = owner.insert(id, who.clone()) {
            return Err(("double-owner".into(), format!("page {} is owned by {} and by {}", id, prev, who)));
        }
        Ok(())
    };
    let mut a = Audit { pages_seen: 0, leaves: 0, depth: 0, overflow_pages: 0, free_pages: 0 };
    let mut total_leaf_cells = 0usize;
    for root in roots {
        // iterative DFS: (page, depth)
        let mut leaf_depth: Option<usize> = None;
        let mut leaves_in_order: Vec<u64> = vec![];
        let mut stack: Vec<(u64, usize)> = vec![(*root, 1)];
        let mut order: Vec<(u64, usize)> = vec![];
        // explicit in-order walk to get leaves left to right
        fn walk(pager: &VPager, id: u64, depth: usize, out: &mut Vec<(VBtreePage, usize)>, guard: &mut usize) -> Result<(), (String, String)> {
            *guard += 1;
            if *guard > 200_000 {
                return Err(("cycle".into(), "page graph walk did not terminate".into()));
            }
            let p = pager.btree_page(id).map_err(|e| ("type-confusion".to_string(), format!("page {} reached as a tree node cannot be read as one: {}", id, e)))?;
            if !p.is_leaf {
                let children: Vec<Option<u64>> = p.cells.iter().map(|c| c.left_child).collect();
                let rc = p.right_child;
                out.push((p, depth));
                for (i, c) in children.iter().enumerate() {
                    match c {
                        Some(c) => walk(pager, *c, depth + 1, out, guard)?,
                        None => return Err(("interior-cell-without-child".into(), format!("interior page {} slot {} has no left child", id, i))),
                    }
                }
                match rc {
                    Some(c) => walk(pager, c, depth + 1, out, guard)?,
                    None => return Err(("interior-without-right-child".into(), format!("interior page {} has no right child", id))),
                }
            } else {
                out.push((p, depth));
            }
            Ok(())
        }
        let _ = (&mut stack, &mut order);
        let mut pages: Vec<(VBtreePage, usize)> = vec![];
        let mut guard = 0usize;
        walk(pager, *root, 1, &mut pages, &mut guard)?;
        for (p, depth) in &pages {
            claim(p.id, format!("tree(root {}) node", root), &mut owner)?;
            a.pages_seen += 1;
            // slot geometry
            if p.cells.len() != p.num_slots {
                return Err(("slot-count".into(), format!("page {}: {} cells for {} slots", p.id, p.cells.len(), p.num_slots)));
            }
            let mut spans: Vec<(usize, usize)> = vec![];
            for (i, c) in p.cells.iter().enumerate() {
                let st = c.slot_offset as usize;
                let en = st + c.total_size;
                if en > p.page_size as usize {
                    return Err(("cell-outside-page".into(), format!("page {} slot {}: cell [{}, {}) exceeds the page ({} bytes)", p.id, i, st, en, p.page_size)));
                }
                spans.push((st, en));
                // overflow chain
                if c.is_overflow {
                    let mut cur = c.overflow_page;
                    let mut n = 0;
                    while let Some(o) = cur {
                        claim(o, format!("overflow chain of page {} slot {}", p.id, i), &mut owner)?;
                        a.overflow_pages += 1;
                        n += 1;
                        if n > 100_000 {
                            return Err(("overflow-cycle".into(), format!("overflow chain of page {} slot {} does not end", p.id, i)));
                        }
                        cur = pager.overflow_page(o).map_err(|e| ("type-confusion".to_string(), format!("overflow page {} of page {} slot {}: {}", o, p.id, i, e)))?.0;
                    }
                    if n == 0 {
                        return Err(("overflow-cell-without-chain".into(), format!("page {} slot {} is flagged overflow but has no overflow page", p.id, i)));
                    }
                }
            }
            spans.sort();
            for w in spans.windows(2) {
                if w[0].1 > w[1].0 {
                    return Err(("cells-overlap".into(), format!("page {}: cells [{}, {}) and [{}, {}) overlap", p.id, w[0].0, w[0].1, w[1].0, w[1].1)));
                }
            }
            if p.is_leaf {
                a.leaves += 1;
                total_leaf_cells += p.cells.len();
                leaves_in_order.push(p.id);
                match leaf_depth {
                    None => leaf_depth = Some(*depth),
                    Some(d) if d != *depth => return Err(("leaf-depth".into(), format!("leaf {} at depth {} but another leaf at depth {}", p.id, depth, d))),
                    _ => {}
                }
            }
        }
        a.depth = a.depth.max(leaf_depth.unwrap_or(1));
        // sibling chain must equal the in-order leaf sequence, both ways
        let by_id: BTreeMap<u64, &VBtreePage> = pages.iter().map(|(p, _)| (p.id, p)).collect();
        for (i, id) in leaves_in_order.iter().enumerate() {
            let p = by_id[id];
            let want_next = leaves_in_order.get(i + 1).cloned();
            let want_prev = if i == 0 { None } else { Some(leaves_in_order[i - 1]) };
            if p.next_sibling != want_next {
                return Err(("sibling-next".into(), format!("leaf {} has next {:?} but the next leaf in key order is {:?}", id, p.next_sibling, want_next)));
            }
            if p.prev_sibling != want_prev {
                return Err(("sibling-prev".into(), format!("leaf {} has prev {:?} but the previous leaf in key order is {:?}", id, p.prev_sibling, want_prev)));
            }
        }
    }
    if let Some(n) = expect_keys {
        if total_leaf_cells != n {
            return Err(("leaf-cell-count".into(), format!("the leaves hold {} cells but the model holds {} keys", total_leaf_cells, n)));
        }
    }
    // free list
    let mut cur = hdr.first_free_page;
    let mut last = None;
    let mut n = 0;
    while let Some(f) = cur {
        claim(f, "free list".into(), &mut owner)?;
        a.free_pages += 1;
        last = Some(f);
        n += 1;
        if n > 1_000_000 {
            return Err(("free-list-cycle".into(), "free list does not end".into()));
        }
        cur = pager.overflow_page(f).map_err(|e| ("type-confusion".to_string(), format!("free page {}: {}", f, e)))?.0;
    }
    if last != hdr.last_free_page {
        return Err(("free-list-tail".into(), format!("free list ends at {:?} but the header says {:?}", last, hdr.last_free_page)));
    }
    // every page owned
    for id in 1..hdr.total_pages {
        if !owner.contains_key(&id) {
            return Err(("leak".into(), format!("page {} of {} is neither a tree node, nor an overflow link, nor on the free list", id, hdr.total_pages)));
        }
    }
    Ok(a)
}

pub fn run_sequence_tagged(r: &mut Rng, tc: &TreeCfg, check: &str, witness: Option<&str>) -> bool {
    let dir = fresh_dir("bt");
    let c = cfg(tc.page, tc.cache, 2, tc.min_keys, tc.siblings);
    let atoms = tc.atoms().join(",");
    let fail = |oracle: &str, kind: &str, detail: String, ops: &Vec<String>| {
        let _ = take_panics();
        if check == "C11" && witness.is_none() && !(oracle == "ownership" || oracle == "reuse") {
            // map / structure / panic failures belong to C10; C11 decides ownership and reuse only
            report::count(&format!("other_property.{}.{}", oracle, kind), 1);
            return;
        }
        let sig = match witness {
            Some(w) => format!("{}:witness:{}", check, w),
            None => format!("{}:{}:{}:[{}]", check, oracle, kind, atoms),
        };
        report::violation(
            &sig,
            &detail,
            J::obj().with("kind", "btree-ops").with("config", tc.show()).with("ops_tail", J::Arr(ops.iter().rev().take(12).rev().map(|s| J::Str(s.clone())).collect())).with("ops_total", ops.len()),
        );
    };
    let mut ops: Vec<String> = vec![];
    if std::env::var("AXV_TRACE").is_ok() {
        eprintln!("SEQ {}", tc.show());
    }
    let pager = match VPager::create(dir.join(DB_FILE), c) {
        Ok(p) => p,
        Err(e) => {
            fail("setup", "pager-create", e, &ops);
            return false;
        }
    };
    let tree = match VTree::create(&pager, &tc.keys, tc.min_keys, tc.siblings) {
        Ok(t) => t,
        Err(e) => {
            fail("setup", "tree-create", e, &ops);
            return false;
        }
    };
    let mut model: BTreeMap<MKey, Vec<u8>> = BTreeMap::new();
    let mut ok = true;
    let mut grew_while_free = 0;
    let probe0 = axmosdb::verif::probe::snapshot();
    let res = std::panic::catch_unwind(std::panic::AssertUnwindSafe(|| {
        for i in 0..tc.nops {
            tick();
            let k = r.below(20);
            let existing: Option<MKey> = if !model.is_empty() && r.chance(1, 2) { model.keys().nth(r.usize(model.len())).cloned() } else { None };
            let before = pager.header();
            if tc.removes && k < 5 {
                let key = existing.clone().unwrap_or_else(|| gen_key(r, &tc.keys, i, tc.nops, tc.order));
                ops.push(format!("remove {:?}", key.0));
                let res = tree.remove(&key.0);
                let had = model.remove(&key).is_some();
                if res.is_ok() != had {
                    fail("map", if had { "remove-failed" } else { "remove-of-absent-succeeded" }, format!("remove {:?} => {:?} but the key was {}present", key.0, res, if had { "" } else { "not " }), &ops);
                    return false;
                }
            } else if tc.updates && k < 9 && existing.is_some() {
                let key = existing.clone().unwrap();
                let p = payload(r, tc.payloads, i as u64, tc.variable_cells);
                ops.push(format!("update {:?} len {}", key.0, p.len()));
                if let Err(e) = tree.update(&key.0, &p) {
                    fail("map", "update-failed", format!("update {:?} (payload {} bytes) => {}", key.0, p.len(), e), &ops);
                    return false;
                }
                model.insert(key, p);
            } else if k < 12 && !tc.insert_only {
                let key = gen_key(r, &tc.keys, i, tc.nops, tc.order);
                let p = payload(r, tc.payloads, i as u64, tc.variable_cells);
                ops.push(format!("upsert {:?} len {}", key.0, p.len()));
                if let Err(e) = tree.upsert(&key.0, &p) {
                    fail("map", "upsert-failed", format!("upsert {:?} (payload {} bytes) => {}", key.0, p.len(), e), &ops);
                    return false;
                }
                model.insert(key, p);
            } else {
                let key = gen_key(r, &tc.keys, i, tc.nops, tc.order);
                let p = payload(r, tc.payloads, i as u64, tc.variable_cells);
                ops.push(format!("insert {:?} len {}", key.0, p.len()));
                let res = tree.insert(&key.0, &p);
                let dup = model.contains_key(&key);
                if res.is_ok() == dup {
                    fail("map", if dup { "duplicate-insert-accepted" } else { "insert-failed" }, format!("insert {:?} => {:?} but the key was {}present", key.0, res, if dup { "" } else { "not " }), &ops);
                    return false;
                }
                if !dup {
                    model.insert(key, p);
                }
            }
            if std::env::var("AXV_TRACE").is_ok() {
                eprintln!("op {} {}", i, ops.last().cloned().unwrap_or_default());
            }
            report::count("ops", 1);
            // C11 reuse monitor: the engine-side probe counts allocations that extend the file although the free
            // list is not empty (decided where the allocation happens, not inferred from before/after snapshots)
            let _ = &before;
            grew_while_free = axmosdb::verif::probe::snapshot().2 - probe0.2;
            // point lookups: the touched key and a random absent one
            if let Some(op) = ops.last() {
                let _ = op;
            }
            let probe = existing.unwrap_or_else(|| gen_key(r, &tc.keys, i, tc.nops, tc.order));
            match tree.search(&probe.0) {
                Ok(got) => {
                    let want = model.get(&probe);
                    if got.as_ref() != want {
                        fail("map", if want.is_some() && got.is_none() { "lookup-misses-key" } else if want.is_none() { "lookup-finds-absent-key" } else { "lookup-wrong-payload" }, format!("search {:?} => {:?} bytes, model has {:?} bytes", probe.0, got.as_ref().map(|v| v.len()), want.map(|v| v.len())), &ops);
                        return false;
                    }
                    report::count("lookups_checked", 1);
                }
                Err(e) => {
                    fail("map", "lookup-error", format!("search {:?} => {}", probe.0, e), &ops);
                    return false;
                }
            }
            // periodic full scan + structure walk + ownership audit
            let every = if tc.nops <= 80 { 4 } else { 16 };
            if i % every == every - 1 || i + 1 == tc.nops {
                match tree.scan() {
                    Ok(rows) => {
                        let want: Vec<(&MKey, &Vec<u8>)> = model.iter().collect();
                        let same = rows.len() == want.len() && rows.iter().zip(want.iter()).all(|((k, p), (mk, mp))| MKey(k.clone()) == **mk && p == *mp);
                        if !same {
                            let kind = if rows.len() < want.len() { "scan-misses-keys" } else if rows.len() > want.len() { "scan-extra-keys" } else { "scan-wrong-order-or-payload" };
                            fail("map", kind, format!("forward scan returns {} entries, the model holds {}", rows.len(), want.len()), &ops);
                            return false;
                        }
                        report::count("scans_checked", 1);
                    }
                    Err(e) => {
                        fail("map", "scan-error", e, &ops);
                        return false;
                    }
                }
                if r.chance(1, 4) {
                    // audit the on-disk state: a checkpoint writes everything back and empties the cache
                    if let Err(e) = pager.flush() {
                        fail("map", "flush-failed", e, &ops);
                        return false;
                    }
                    report::count("audits_after_checkpoint", 1);
                }
                match audit(&pager, &[tree.root()], Some(model.len())) {
                    Ok(a) => {
                        report::count("audits", 1);
                        report::count("pages_audited", a.pages_seen as i64 + a.overflow_pages as i64 + a.free_pages as i64);
                        report::set_max("max.tree_depth", a.depth as i64);
                        report::set_max("max.leaves", a.leaves as i64);
                        report::set_max("max.overflow_pages", a.overflow_pages as i64);
                        report::set_max("max.free_pages", a.free_pages as i64);
                    }
                    Err((inv, detail)) => {
                        let own = ["double-owner", "leak", "free-list-tail", "free-list-cycle", "page-out-of-range", "type-confusion"].contains(&inv.as_str());
                        // ownership invariants belong to C11, structural ones to C10; each check reports its own
                        if (check == "C11") == own {
                            fail(if own { "ownership" } else { "structure" }, &inv, detail, &ops);
                            return false;
                        } else {
                            report::count(&format!("other_property.{}", inv), 1);
                            return false; // the tree is damaged either way: stop this sequence
                        }
                    }
                }
            }
        }
        true
    }));
    match res {
        Ok(b) => ok = b,
        Err(_) => {
            let p = take_panics();
            let site = p.first().map(|x| panic_site(&x.location)).unwrap_or_else(|| "?".into());
            fail("panic", &site, format!("panic inside a tree operation: {}", p.first().map(|x| x.message.clone()).unwrap_or_default()), &ops);
            ok = false;
        }
    }
    if ok && check == "C11" && grew_while_free > 0 {
        fail("reuse", "file-grew-while-free-list-nonempty", format!("{} allocations extended the file although the free list was not empty", grew_while_free), &ops);
        ok = false;
    }
    drop(tree);
    drop(pager);
    rm_dir(&dir);
    ok
}

/// C11 scenario: fill a tree, release it (what DROP TABLE does), build another one: every page of the first tree must
/// be on the free list after the release, the second tree must take its pages from there before the file grows, and
/// every page must have exactly one owner throughout.
pub fn drop_reuse(r: &mut Rng, n1: usize, n2: usize, payload_len: usize, witness: Option<&str>) -> bool {
    let dir = fresh_dir("dr");
    let pager = match VPager::create(dir.join(DB_FILE), cfg(4096, 1000, 2, 3, 2)) {
        Ok(p) => p,
        Err(_) => return false,
    };
    let desc = format!("drop-reuse n1={} n2={} payload={}", n1, n2, payload_len);
    let fail = |kind: &str, detail: String| {
        let _ = take_panics();
        let sig = match witness {
            Some(w) => format!("C11:witness:{}", w),
            None => format!("C11:ownership:{}:[drop-reuse]", kind),
        };
        report::violation(&sig, &detail, J::obj().with("kind", "btree-ops").with("config", desc.as_str()));
    };
    let res = std::panic::catch_unwind(std::panic::AssertUnwindSafe(|| {
        let a = match VTree::create(&pager, &[VKeyKind::BigUInt], 3, 2) {
            Ok(t) => t,
            Err(e) => {
                fail("tree-create", e);
                return false;
            }
        };
        for i in 0..n1 {
            let k = r.below(1_000_000);
            let _ = i;
            if let Err(e) = a.upsert(&[VKey::U(k)], &vec![b'q'; payload_len]) {
                fail("fill-failed", e);
                return false;
            }
        }
        if let Err((inv, d)) = audit(&pager, &[a.root()], None) {
            fail(&inv, format!("after filling the first tree: {}", d));
            return false;
        }
        let pages_before_drop = pager.header().total_pages;
        if let Err(e) = a.dealloc() {
            fail("dealloc-failed", e);
            return false;
        }
        // half of the runs audit what is on disk (checkpoint = cache cleared), the others what is in the cache
        if r.chance(1, 2) {
            if let Err(e) = pager.flush() {
                fail("flush-failed", e);
                return false;
            }
            report::count("audits_after_checkpoint", 1);
        }
        if let Err((inv, d)) = audit(&pager, &[], None) {
            fail(&inv, format!("after releasing the first tree (all {} pages must be free): {}", pages_before_drop - 1, d));
            return false;
        }
        report::count("drop_audits", 1);
        let p0 = axmosdb::verif::probe::snapshot();
        let b = match VTree::create(&pager, &[VKeyKind::BigUInt], 3, 2) {
            Ok(t) => t,
            Err(e) => {
                fail("tree-create-after-drop", e);
                return false;
            }
        };
        // a third of the runs checkpoint while the second tree is still empty: its root came from the free list and
        // nothing has touched it since; it must survive the round trip through the data file
        if r.chance(1, 3) {
            if let Err(e) = pager.flush() {
                fail("flush-failed", e);
                return false;
            }
            report::count("checkpoints_over_untouched_recycled_root", 1);
        }
        for _ in 0..n2 {
            let k = r.below(1_000_000);
            if let Err(e) = b.upsert(&[VKey::U(k)], &vec![b'w'; payload_len]) {
                fail("refill-failed", e);
                return false;
            }
        }
        let p1 = axmosdb::verif::probe::snapshot();
        let grew_while_free = p1.2 - p0.2;
        report::count("allocations_from_free_list", (p1.0 - p0.0) as i64);
        report::count("allocations_extending_file", (p1.1 - p0.1) as i64);
        if p1.0 == p0.0 && n2 > 50 {
            fail("free-list-not-used", format!("the second tree allocated {} pages, none of them from the free list left by the dropped tree", p1.1 - p0.1));
            return false;
        }
        if grew_while_free > 0 {
            fail("file-grew-while-free-list-nonempty", format!("{} allocations extended the file although freed pages were available", grew_while_free));
            return false;
        }
        if let Err((inv, d)) = audit(&pager, &[b.root()], None) {
            fail(&inv, format!("after building the second tree: {}", d));
            return false;
        }
        report::count("reuse_audits", 1);
        true
    }));
    let ok = match res {
        Ok(b) => b,
        Err(_) => {
            let p = take_panics();
            fail("panic", format!("panic: {}", p.first().map(|x| format!("{} {}", panic_site(&x.location), x.message)).unwrap_or_default()));
            false
        }
    };
    drop(pager);
    rm_dir(&dir);
    ok
}

/// C11 at SQL level: after small histories (inserts, deletes, VACUUM, reopen) on a table with a UNIQUE index, every page
/// of the database file must be owned exactly once, starting from the catalog roots (meta table = page 1, meta index =
/// page 2, the table's and its indexes' roots) plus the free list.
pub fn sql_audit(r: &mut Rng) -> bool {
    let mut db = Dbx::create(default_cfg());
    let unique = r.chance(1, 2);
    let ddl = format!("CREATE TABLE t (id BIGINT, a INT, s TEXT{})", if unique { ", UNIQUE(id)" } else { "" });
    let mut script = vec![ddl.clone()];
    if db.exec(&ddl).is_err() {
        return false;
    }
    let mut next = 1i64;
    let fail = |kind: &str, detail: String, script: &Vec<String>| {
        let _ = take_panics();
        report::violation(&format!("C11:ownership:{}:[sql{}]", kind, if unique { ",unique-index" } else { "" }), &detail, J::obj().with("kind", "script").with("script", J::Arr(script.iter().map(|s| J::Str(s.chars().take(200).collect())).collect())));
    };
    let steps = r.range(4, 14);
    for _ in 0..steps {
        let k = r.below(10);
        let sql = if k < 6 {
            let n = r.range(1, 25);
            let rows: Vec<String> = (0..n).map(|_| {
                next += 1;
                format!("({}, {}, '{}')", next, r.range(-5, 50), "v".repeat(r.range(8, 8) as usize))
            }).collect();
            format!("INSERT INTO t VALUES {}", rows.join(", "))
        } else if k < 8 {
            let lo = r.range(1, next.max(2));
            format!("DELETE FROM t WHERE id + 0 BETWEEN {} AND {}", lo, lo + r.range(0, 10))
        } else if k == 8 {
            "@vacuum".to_string()
        } else {
            "@reopen".to_string()
        };
        script.push(sql.clone());
        let ok = match sql.as_str() {
            "@vacuum" => db.vacuum().is_ok(),
            "@reopen" => db.reopen(default_cfg()).is_ok(),
            s => db.exec(s).is_ok(),
        };
        if !ok {
            // statement-level failures are other properties' business; stop this history
            let _ = take_panics();
            return false;
        }
        let roots = match catalog_roots(db.d(), &["t"]) {
            Ok(v) => v,
            Err(e) => {
                fail("catalog-unreadable", e, &script);
                return false;
            }
        };
        let mut rs: Vec<u64> = vec![1, 2];
        rs.extend(roots.iter().map(|x| x.2));
        let vp = VPager::of_database(db.d());
        match std::panic::catch_unwind(std::panic::AssertUnwindSafe(|| audit(&vp, &rs, None))) {
            Ok(Ok(a)) => {
                report::count("sql_audits", 1);
                report::count("pages_audited", (a.pages_seen + a.overflow_pages + a.free_pages) as i64);
            }
            Ok(Err((inv, d))) => {
                let own = ["double-owner", "leak", "free-list-tail", "free-list-cycle", "page-out-of-range", "type-confusion"].contains(&inv.as_str());
                if own {
                    fail(&inv, d, &script);
                }
                return false;
            }
            Err(_) => {
                let _ = take_panics();
                return false;
            }
        }
    }
    true
}

pub fn clean_cfgs() -> Vec<TreeCfg> {
    use VKeyKind::*;
    let mut v = vec![];
    for (order, keys) in [("asc", vec![BigUInt]), ("desc", vec![BigUInt]), ("random", vec![BigUInt]), ("zigzag", vec![BigUInt]), ("dups", vec![BigUInt]), ("random", vec![BigInt]), ("random", vec![Int]), ("random", vec![Text]), ("random", vec![Double]), ("random", vec![BigUInt, Int])] {
        v.push(TreeCfg { variable_cells: false, insert_only: false, page: 4096, cache: 4000, min_keys: 3, siblings: 2, keys, order, payloads: &[40], nops: 300, removes: false, updates: false });
    }
    v
}

pub fn random_cfg(r: &mut Rng, mode: &str) -> TreeCfg {
    let full = mode == "full";
    use VKeyKind::*;
    let keysets: Vec<Vec<VKeyKind>> = vec![vec![BigUInt], vec![BigInt], vec![Int], vec![Text], vec![Double], vec![BigUInt, Int], vec![Text, BigUInt]];
    let mut tc = TreeCfg {
        variable_cells: false, insert_only: false,
        page: 4096,
        // the cache always holds the whole tree in the clean stratum (eviction under random access loses keys: witness small_cache)
        cache: 4000,
        min_keys: *r.pick(&[3usize, 4, 6]),
        siblings: *r.pick(&[1usize, 2, 3]),
        keys: r.pick(&keysets).clone(),
        order: *r.pick(&["asc", "desc", "random", "zigzag", "dups"]),
        payloads: *r.pick(&[&[8usize][..], &[24][..], &[40][..], &[80][..], &[120][..]]),
        nops: *r.pick(&[60usize, 200, 500]),
        removes: false,
        updates: false,
    };
    let mode_atoms: Vec<&str> = mode.split('+').collect();
    if mode_atoms.contains(&"remove") {
        tc.removes = true;
    }
    if mode_atoms.contains(&"update") {
        tc.updates = true;
    }
    if mode_atoms.contains(&"variable") {
        tc.variable_cells = true;
        tc.payloads = *r.pick(&[&[1usize, 8, 40][..], &[40, 120, 300][..], &[8, 600][..]]);
    }
    if mode_atoms.contains(&"insertonly") {
        tc.insert_only = true;
        tc.removes = false;
        tc.updates = false;
    }
    for a in &mode_atoms {
        if let Some(n) = a.strip_prefix("nops") {
            tc.nops = n.parse().unwrap_or(tc.nops);
        }
    }
    if mode_atoms.contains(&"pages") {
        tc.page = *r.pick(&[4096usize, 8192, 16384, 32768, 65536]);
    }
    if mode_atoms.contains(&"mixed") {
        // cells of very different sizes in one leaf, up to (nearly) the largest cell that still stays in the page
        tc.variable_cells = true;
        let big = (tc.page - 80) / tc.min_keys - 140;
        let sets: Vec<Vec<usize>> = vec![vec![8, big], vec![8, big / 7, big / 3, big], vec![1, 40, big / 2], vec![24, big * 3 / 4], vec![8, 8, 8, big]];
        tc.payloads = Box::leak(r.pick(&sets).clone().into_boxed_slice());
    }
    if mode_atoms.contains(&"smallcache") {
        tc.cache = 24;
    }
    if mode_atoms.contains(&"large") {
        tc.payloads = *r.pick(&[&[300usize][..], &[600][..], &[900][..]]);
    }
    if mode_atoms.contains(&"overflow") {
        tc.payloads = *r.pick(&[&[1500usize][..], &[5000][..], &[20000][..]]);
    }
    if full {
        tc.page = *r.pick(&[4096usize, 8192, 16384, 32768, 65536]);
        tc.cache = *r.pick(&[4000usize, 200, 24]);
        tc.variable_cells = true;
        tc.payloads = *r.pick(&[&[1usize, 8, 40][..], &[40, 120, 300][..], &[8, 600][..], &[100, 1500, 5000][..], &[20000][..]]);
        tc.removes = r.chance(1, 2);
        tc.updates = r.chance(1, 2);
    }
    tc
}

/// Deterministic witnesses of the open findings (fixed seeds and configurations).
pub fn witnesses(check: &str, only: Option<usize>) {
    use VKeyKind::*;
    let base = TreeCfg { variable_cells: false, insert_only: false, page: 4096, cache: 1000, min_keys: 3, siblings: 2, keys: vec![BigUInt], order: "random", payloads: &[40], nops: 400, removes: false, updates: false };
    let list: Vec<(&str, &str, TreeCfg, u64)> = vec![
        ("variable_size_cells", "cells of different sizes in one tree (payloads 1..300 bytes, random keys): rebalancing corrupts pages (lookups miss keys, EINVAL page reads, SIGSEGV in Reassembler::reassemble); same through SQL with a UNIQUE index on variable-length TEXT", TreeCfg { variable_cells: true, payloads: &[1, 8, 40, 120, 300], ..base.clone() }, 11),
        ("large_cells", "uniform cells of 900 bytes (4 per 4 KiB page): panic 'index out of bounds' in storage/core/buffer.rs or lost keys after a few dozen inserts", TreeCfg { payloads: &[900], order: "zigzag", siblings: 1, nops: 120, ..base.clone() }, 12),
        ("overflow_payloads", "payloads larger than a page (overflow chains): inserts fail or panic in storage/core/buffer.rs", TreeCfg { payloads: &[5000], order: "asc", keys: vec![BigUInt, Int], nops: 200, ..base.clone() }, 13),
        ("small_cache", "cache of 24 pages: inserts fail with 'Buffer pool got out of memory' although no operation needs more than a few pages (eviction cursor never wraps)", TreeCfg { cache: 24, payloads: &[120], nops: 1500, ..base.clone() }, 14),
        ("deep_tree_descending", "trees of three and more levels filled in descending key order (2500 uniform 120-byte cells): keys inserted earlier are no longer found / update and remove report 'key does not exist' (interior-page rebalancing)", TreeCfg { keys: vec![BigInt], order: "desc", min_keys: 6, siblings: 1, payloads: &[120], nops: 2500, updates: true, ..base.clone() }, 16),
        ("large_tree_ascending", "trees of more than ~2000 uniform 120-byte cells lose keys in every key order, ascending included (lookups miss keys, scans out of order, 'key does not exist' on update / remove, duplicate inserts accepted): found by the thorough tier with 12000-operation sequences; 3500 operations with single numeric keys are still clean, 5000 are not; with Text or composite keys 2500 operations (about 1800 entries) already fail in 4 of 960 sequences", TreeCfg { keys: vec![BigUInt], order: "asc", min_keys: 4, siblings: 3, cache: 4000, payloads: &[120], nops: 12000, ..base.clone() }, 17),
        ("cache_smaller_than_tree", "cache of 200 pages and a tree that outgrows it (zigzag key order): a key inserted earlier is no longer found (dirty page eviction / reload under random access)", TreeCfg { cache: 200, min_keys: 4, siblings: 1, order: "zigzag", payloads: &[120], nops: 2500, ..base.clone() }, 15),
    ];
    for (wi, (name, what, tc, seed)) in list.into_iter().enumerate() {
        if only.map(|o| o != wi).unwrap_or(false) {
            continue;
        }
        // run in the same process but behind a declared intent: some of these crash the process
        report::about_to(&format!("witness-{}", name), &tc.show());
        let before = report::violation_count();
        let mut r = Rng::new(seed);
        report::arm(&format!("{} witness {}", check, name), 300);
        let ok = run_sequence_tagged(&mut r, &tc, check, Some(name));
        report::disarm();
        report::done_with();
        report::count("witnesses_run", 1);
        if ok && report::violation_count() == before {
            report::note(&format!("known finding witness {}:{} did not reproduce ({})", check, name, what));
        }
    }
}


/// Bounded-exhaustive stratum for cells of different sizes: EVERY assignment of sizes from a small palette to k fresh
/// keys, for a set of key orders (all permutations for k <= 5, a fixed seeded sample above), inserted into a fresh
/// tree (4 KiB pages, min_keys 3); after every insert every key inserted so far is looked up, at the end the scan,
/// the structure walk and the ownership audit run. Failures report under `<check>:<oracle>:<kind>:[stratum.small-exhaustive]`.
pub fn small_exhaustive(check: &str, tier: &str, shard: u64, nshards: u64) {
    let k: usize = std::env::var("AXV_SE_K").ok().and_then(|v| v.parse().ok()).unwrap_or(7);
    let palette: Vec<usize> = std::env::var("AXV_SE_PALETTE").ok().map(|v| v.split(',').filter_map(|x| x.parse().ok()).collect()).unwrap_or(vec![8, 180, 350, 1200]);
    let nperm: usize = std::env::var("AXV_SE_PERMS").ok().and_then(|v| v.parse().ok()).unwrap_or(if tier == "thorough" { 120 } else { 12 });
    // key orders
    let mut perms: Vec<Vec<usize>> = vec![];
    let ident: Vec<usize> = (0..k).collect();
    if k <= 5 {
        permute(&mut ident.clone(), 0, &mut perms);
    } else {
        perms.push(ident.clone());
        perms.push(ident.iter().rev().cloned().collect());
        // ascending prefix, then the gaps from the right / from the left
        for m in 3..k {
            let mut p: Vec<usize> = (0..k).filter(|i| i % 2 == 0).take(m).collect();
            let rest: Vec<usize> = (0..k).filter(|i| !p.contains(i)).collect();
            let mut a = p.clone();
            a.extend(rest.iter().rev());
            p.extend(rest.iter());
            perms.push(a);
            perms.push(p);
        }
        let mut r = Rng::new(0x5EED_5EED ^ k as u64);
        while perms.len() < nperm {
            let mut p = ident.clone();
            for i in (1..k).rev() {
                p.swap(i, r.usize(i + 1));
            }
            if !perms.contains(&p) {
                perms.push(p);
            }
        }
    }
    let nsizes = palette.len().pow(k as u32);
    let total = nsizes * perms.len();
    let dir = fresh_dir("se");
    let c = cfg(4096, 64, 2, 3, 2);
    let mut idx = 0usize;
    report::about_to("btree-small-exhaustive", &format!("k={} palette={:?} perms={}", k, palette, perms.len()));
    for (pi, perm) in perms.iter().enumerate() {
        for sz in 0..nsizes {
            idx += 1;
            if (idx as u64) % nshards != shard % nshards {
                continue;
            }
            tick();
            let mut sizes = vec![];
            let mut x = sz;
            for _ in 0..k {
                sizes.push(palette[x % palette.len()]);
                x /= palette.len();
            }
            let script: Vec<(u64, usize)> = perm.iter().map(|r| ((*r as u64 + 1) * 10, sizes[*r])).collect();
            let verdict = run_script(&dir, c, &script, check);
            report::eval(Some(fnv(format!("se|{}|{}|{}", k, pi, sz).as_bytes())));
            report::count("small_exhaustive_sequences", 1);
            if let Err((oracle, kind, detail)) = verdict {
                let _ = take_panics();
                report::count(&format!("small_exhaustive_failures.{}.{}", oracle, kind), 1);
                if (check == "C11") != (oracle == "ownership") {
                    continue; // map / structure / panic failures are C10's, ownership failures are C11's
                }
                // the one shape with an open finding on this tree: every cell has the largest palette size (uniform large cells)
                let all_largest = sizes.iter().all(|s| *s == *palette.iter().max().unwrap());
                report::violation(
                    &format!("{}:{}:{}:[stratum.small-exhaustive{}]", check, oracle, kind, if all_largest { ",all-cells-largest" } else if sizes.iter().any(|s| *s == *palette.iter().max().unwrap()) { ",has-largest-cell" } else { "" }),
                    &detail,
                    J::obj().with("kind", "btree-script").with("inserts(key,payload_len)", J::Arr(script.iter().map(|(k, l)| J::Str(format!("{}:{}", k, l))).collect())),
                );
            }
        }
    }
    report::done_with();
    report::count("small_exhaustive_total_in_bound", if shard % nshards == 0 { total as i64 } else { 0 });
    rm_dir(&dir);
}

fn permute(a: &mut Vec<usize>, i: usize, out: &mut Vec<Vec<usize>>) {
    if i == a.len() {
        out.push(a.clone());
        return;
    }
    for j in i..a.len() {
        a.swap(i, j);
        permute(a, i + 1, out);
        a.swap(i, j);
    }
}

fn run_script(dir: &std::path::Path, c: axmosdb::DBConfig, script: &[(u64, usize)], check: &str) -> Result<(), (String, String, String)> {
    let path = dir.join(DB_FILE);
    let _ = std::fs::remove_file(&path);
    let res = std::panic::catch_unwind(std::panic::AssertUnwindSafe(|| -> Result<(), (String, String, String)> {
        let pager = VPager::create(path.clone(), c).map_err(|e| ("setup".to_string(), "pager-create".to_string(), e))?;
        let tree = VTree::create(&pager, &[VKeyKind::BigUInt], 3, 2).map_err(|e| ("setup".to_string(), "tree-create".to_string(), e))?;
        let mut model: BTreeMap<u64, Vec<u8>> = BTreeMap::new();
        for (i, (key, len)) in script.iter().enumerate() {
            let mut p = format!("p{}:", i).into_bytes();
            while p.len() < *len {
                p.push(b'a' + (p.len() % 23) as u8);
            }
            p.truncate((*len).max(1));
            if let Err(e) = tree.insert(&[VKey::U(*key)], &p) {
                return Err(("map".into(), "insert-failed".into(), format!("insert #{} of key {} ({} bytes) => {}", i, key, len, e)));
            }
            model.insert(*key, p);
            for (mk, mp) in &model {
                match tree.search(&[VKey::U(*mk)]) {
                    Ok(Some(got)) if got == *mp => {}
                    Ok(Some(_)) => return Err(("map".into(), "lookup-wrong-payload".into(), format!("after insert #{}: key {} has another payload", i, mk))),
                    Ok(None) => return Err(("map".into(), "lookup-misses-key".into(), format!("after insert #{} (key {}): key {} is gone", i, key, mk))),
                    Err(e) => return Err(("map".into(), "lookup-error".into(), format!("after insert #{}: search {} => {}", i, mk, e))),
                }
                report::count("lookups_checked", 1);
            }
        }
        let rows = tree.scan().map_err(|e| ("map".to_string(), "scan-error".to_string(), e))?;
        let same = rows.len() == model.len() && rows.iter().zip(model.iter()).all(|((k, p), (mk, mp))| k.len() == 1 && matches!(&k[0], VKey::U(x) if x == mk) && p == mp);
        if !same {
            return Err(("map".into(), "scan-differs".into(), format!("forward scan returns {} entries, the model holds {}", rows.len(), model.len())));
        }
        report::count("scans_checked", 1);
        match audit(&pager, &[tree.root()], Some(model.len())) {
            Ok(_) => report::count("audits", 1),
            Err((inv, detail)) => {
                let own = ["double-owner", "leak", "free-list-tail", "free-list-cycle", "page-out-of-range", "type-confusion"].contains(&inv.as_str());
                if (check == "C11") == own {
                    return Err((if own { "ownership".into() } else { "structure".into() }, inv, detail));
                }
            }
        }
        Ok(())
    }));
    match res {
        Ok(v) => v,
        Err(_) => {
            let p = take_panics();
            let site = p.first().map(|x| panic_site(&x.location)).unwrap_or_else(|| "?".into());
            Err(("panic".into(), site, format!("panic inside a tree operation: {}", p.first().map(|x| x.message.clone()).unwrap_or_default())))
        }
    }
}

pub fn run_sequence(r: &mut Rng, tc: &TreeCfg, check: &str) -> bool {
    run_sequence_tagged(r, tc, check, None)
}

pub fn run(check: &str, seed: u64, tier: &str, shard: u64, mode: Option<&str>) {
    if mode == Some("smallex") {
        small_exhaustive(check, tier, shard, 16);
        return;
    }
    if mode == Some("dropreuse") {
        let mut master = Rng::new(seed ^ shard);
        for i in 0..40 {
            let mut r = master.fork(i);
            let n1 = *r.pick(&[20usize, 100, 400, 1500]);
            let n2 = *r.pick(&[20usize, 100, 400, 1500]);
            let pl = *r.pick(&[8usize, 40, 120]);
            report::arm("C11 drop-reuse", 300);
            drop_reuse(&mut r, n1, n2, pl, None);
            report::disarm();
            report::eval(Some(fnv(format!("{}{}{}{}", n1, n2, pl, i).as_bytes())));
        }
        return;
    }
    if check == "C11" && mode.is_none() && tier != "witness" {
        // C11 extras: release-and-reuse scenarios at the tree level and whole-file audits after SQL histories
        let mut m2 = Rng::new(seed ^ shard.wrapping_mul(77) ^ 0xC11);
        let k = if tier == "thorough" { 300 } else { 25 };
        for i in 0..k {
            let mut r = m2.fork(i);
            let n1 = *r.pick(&[20usize, 100, 400, 1500]);
            let n2 = *r.pick(&[20usize, 100, 400, 1500]);
            let pl = *r.pick(&[8usize, 40, 120]);
            report::arm("C11 drop-reuse", 300);
            drop_reuse(&mut r, n1, n2, pl, None);
            report::disarm();
            report::eval(Some(fnv(format!("dr{}{}{}{}{}", seed, shard, n1, n2, i).as_bytes())));
            report::arm("C11 sql audit", 300);
            sql_audit(&mut r);
            report::disarm();
            report::eval(Some(fnv(format!("sa{}{}{}", seed, shard, i).as_bytes())));
        }
    }
    if tier == "witness" {
        // one witness per process (shard index = witness index): some of them kill the process
        witnesses(check, Some(shard as usize));
        return;
    }
    let n = if tier == "thorough" { 600 } else { 40 };
    let mut master = Rng::new(seed ^ shard.wrapping_mul(0xC10C_10C1_0C10_C10C) ^ fnv(check.as_bytes()));
    // the fixed clean grid once per run (spread over shards)
    for (i, tc) in clean_cfgs().into_iter().enumerate() {
        if (i as u64) % 16 != shard % 16 {
            continue;
        }
        let mut r = master.fork(1000 + i as u64);
        report::about_to("btree-sequence", &tc.show());
        report::arm(&format!("{} btree {}", check, tc.show()), 300);
        run_sequence(&mut r, &tc, check);
        report::disarm();
        report::done_with();
        report::eval(Some(fnv(tc.show().as_bytes())));
    }
    for i in 0..n {
        let mut r = master.fork(i);
        let auto_mode = {
            let mut m = vec![];
            if r.chance(1, 2) {
                m.push("remove");
            }
            if r.chance(1, 2) {
                m.push("update");
            }
            if r.chance(1, 3) {
                m.push("pages");
            }
            m.join("+")
        };
        let mut tc = random_cfg(&mut r, mode.unwrap_or(&auto_mode));
        if mode.is_none() && i % 10 == 9 {
            // 3500 operations is the largest size that is clean on the unchanged tree (witness large_tree_ascending)
            tc.nops = std::env::var("AXV_LONG_NOPS").ok().and_then(|v| v.parse().ok()).unwrap_or(if tier == "thorough" { 3500 } else { 2500 });
            tc.payloads = &[120];
            // long sequences use single numeric keys: with Text / composite keys trees of ~1800 entries and more already
            // lose keys now and then on the unchanged tree (4 of 960 sequences; open finding large_tree_ascending)
            if !matches!(tc.keys.as_slice(), [VKeyKind::BigUInt] | [VKeyKind::BigInt] | [VKeyKind::Int] | [VKeyKind::Double]) {
                tc.keys = vec![*r.pick(&[VKeyKind::BigUInt, VKeyKind::BigInt, VKeyKind::Int, VKeyKind::Double])];
            }
            // trees of three and more levels: only ascending / random key order is sampled (open finding:
            // descending and zigzag orders lose keys once interior pages rebalance; witness deep_tree_descending)
            tc.order = if let Ok(o) = std::env::var("AXV_LONG_ORDER") { Box::leak(o.into_boxed_str()) } else if r.chance(1, 2) { "asc" } else { "random" };
        }
        report::about_to("btree-sequence", &tc.show());
        report::arm(&format!("{} btree {}", check, tc.show()), 300);
        let ok = run_sequence(&mut r, &tc, check);
        report::disarm();
        report::done_with();
        report::eval(Some(fnv(format!("{}|{}|{}", tc.show(), seed, i).as_bytes()) ^ shard));
        for a in tc.atoms() {
            report::count(&format!("atom.{}", a), 1);
            if !ok {
                report::count(&format!("failatom.{}", a), 1);
            }
        }
        if ok && i < 2 {
            report::sample(3, || J::obj().with("config", tc.show()).with("verdict", "model equality after every op, scans, structure walk and ownership audit all passed"));
        }
    }
}
