//! Known-finding witnesses: every open finding has a minimised deterministic script under
//! /verif/corpus/<ID>/<name>.wit whose `-->` lines state what the property requires. A witness that
//! still fails is reported under the signature `<ID>:witness:<name>` (listed in known_findings.jsonl);
//! one that passes produces a NOTE so that stale entries are visible.
use crate::json::J;
use crate::report;
use crate::script::*;

pub fn corpus_dir(check: &str) -> std::path::PathBuf {
    let root = std::env::var("AXV_CORPUS").unwrap_or_else(|_| "/verif/corpus".to_string());
    std::path::PathBuf::from(root).join(check)
}

pub fn run_witnesses(check: &str) {
    let dir = corpus_dir(check);
    let Ok(rd) = std::fs::read_dir(&dir) else { return };
    let mut files: Vec<_> = rd.flatten().map(|e| e.path()).filter(|p| p.extension().map(|x| x == "wit").unwrap_or(false)).collect();
    files.sort();
    for f in files {
        let name = f.file_stem().unwrap().to_string_lossy().to_string();
        let text = std::fs::read_to_string(&f).unwrap_or_default();
        let w = parse_witness(&name, &text);
        report::arm(&format!("witness {}", name), 120);
        let r = run_witness(&w);
        report::disarm();
        report::count("witnesses_run", 1);
        match r {
            Some((line, exp, got)) => {
                report::count("witnesses_reproduced", 1);
                report::violation(
                    &format!("{}:witness:{}", check, name),
                    &format!("{} | step `{}` expected `{}` got `{}`", w.what, line, exp, got.chars().take(200).collect::<String>()),
                    J::obj().with("kind", "witness").with("file", f.to_string_lossy().to_string()),
                );
            }
            None => report::note(&format!("known finding witness {}:{} did not reproduce", check, name)),
        }
    }
}
